(* C05: no Watch / Alarm of an ended block stays in the interrupt map -- in every state of every run of the
   interpreter model (with the /repo fix: _register_interrupt refuses a node inside an ended block). *)
From Coq Require Import ZArith List Bool Arith Lia.
From OP Require Import lib.Obs model.Interp model.InterpRun model.C05 proofs.Interp_inv proofs.C05_proofs.
Import ListNotations.
Open Scope Z_scope.

Section Pending.
  Variable p : program.

  (* parent pointers and child lists describe the same tree: a node lies among the descendants of each of its block
     ancestors (decidable; the check evaluates it on every generated method) *)
  Notation tree_ok_b := (C05.tree_ok_b p).
  Definition tree : Prop := forall i b, In b (ancestors p i) -> is_block p b = true -> In i (descendants p b).

  Lemma ancestors_out i : (length p <= i)%nat -> ancestors p i = [].
  Proof.
    intros G. unfold ancestors. destruct (length p) as [|f] eqn:E; [reflexivity|]. cbn [ancestors_fuel].
    unfold nd. rewrite nth_overflow by lia. reflexivity.
  Qed.
  Lemma tree_ok_tree : tree_ok_b = true -> tree.
  Proof.
    intros T i b A B. destruct (Nat.lt_ge_cases i (length p)) as [L|G].
    - unfold C05.tree_ok_b in T. rewrite forallb_forall in T. specialize (T i). rewrite forallb_forall in T.
      assert (Hi : In i (seq 0 (length p))) by (apply in_seq; lia).
      specialize (T Hi b A). rewrite B in T. cbn in T. now apply memn_In.
    - rewrite ancestors_out in A by exact G. destruct A.
  Qed.

  Definition I (s : S) : Prop := forall x, In x (ints s) -> in_ended_block p s (fst x) = false.

  (* no new ended block, no new interrupt *)
  Definition le (s s' : S) : Prop :=
    (forall a, block_ended (st s' a) = true -> block_ended (st s a) = true)
    /\ (forall x, In x (ints s') -> exists y, In y (ints s) /\ fst y = fst x).
  Lemma le_refl s : le s s. Proof. split; [auto|]. intros x H. now exists x. Qed.
  Lemma le_trans a b c : le a b -> le b c -> le a c.
  Proof.
    intros [E1 K1] [E2 K2]. split; [auto|]. intros x H. destruct (K2 x H) as [y [Hy Fy]]. destruct (K1 y Hy) as [z [Hz Fz]].
    exists z. split; [exact Hz|congruence].
  Qed.

  Lemma ended_mono s s' n : (forall a, block_ended (st s' a) = true -> block_ended (st s a) = true) ->
    in_ended_block p s n = false -> in_ended_block p s' n = false.
  Proof.
    intros E H. unfold in_ended_block in *. apply not_true_is_false. intros X. apply existsb_exists in X as [a [Ha Xa]].
    apply andb_prop in Xa as [B En]. assert (Y : existsb (fun a => is_block p a && block_ended (st s a)) (ancestors p n) = true).
    { apply existsb_exists. exists a. split; [exact Ha|]. rewrite B, (E a En). reflexivity. }
    congruence.
  Qed.
  Lemma I_le s s' : le s s' -> I s -> I s'.
  Proof.
    intros [E K] H x Hx. destruct (K x Hx) as [y [Hy Fy]]. rewrite <- Fy. eapply ended_mono; [exact E|]. now apply H.
  Qed.

  Lemma le_same s s' : nodes s' = nodes s -> ints s' = ints s -> le s s'.
  Proof. intros N J. split; [intros a; unfold Interp.st; now rewrite N|]. intros x H. rewrite J in H. now exists x. Qed.
  Lemma le_set_ns s n x : (block_ended x = true -> block_ended (st s n) = true) -> le s (set_ns s n x).
  Proof.
    intros H. split; [|intros y Hy; now exists y]. intros a. rewrite st_set_ns.
    destruct (Nat.eqb a n && Nat.ltb n (length (nodes s))) eqn:E; [|exact id].
    apply andb_prop in E as [E _]. apply Nat.eqb_eq in E. subst. exact H.
  Qed.
  Lemma le_keys s l sr : (forall x, In x l -> exists y, In y (ints s) /\ fst y = fst x) -> le s (with_ints s l sr).
  Proof. intros H. split; [auto|exact H]. Qed.

  Lemma le_complete s n : le s (complete s n). Proof. apply le_set_ns. cbn. exact id. Qed.
  Lemma le_mark_completed s n : le s (mark_completed s n).
  Proof. unfold mark_completed. destruct (failed (st s n)); [apply le_refl|]. apply le_set_ns. cbn. exact id. Qed.
  Lemma le_with_tag s t : le s (with_tag s t). Proof. now apply le_same. Qed.
  Lemma le_add_mark s n : le s (add_mark s n). Proof. now apply le_same. Qed.
  Lemma le_add_sched s : le s (add_sched s). Proof. now apply le_same. Qed.
  Lemma le_set_error s n : le s (set_error s n). Proof. now apply le_same. Qed.

  Lemma del_int_in l n x : In x (del_int l n) -> In x l /\ fst x <> n.
  Proof.
    unfold del_int. intros H. apply filter_In in H as [H1 H2]. split; [exact H1|].
    apply negb_true_iff in H2. now apply Nat.eqb_neq.
  Qed.
  Lemma le_unregister s n : le s (unregister_interrupt s n).
  Proof.
    unfold unregister_interrupt. set (s1 := set_ns s n _).
    apply (le_trans s s1); [unfold s1; apply le_set_ns; cbn; exact id|]. apply le_keys.
    intros x H. apply del_int_in in H as [H _]. now exists x.
  Qed.
  Lemma le_fold {A} (f : S -> A -> S) : (forall s a, le s (f s a)) -> forall l s, le s (fold_left f l s).
  Proof. intros H. induction l as [|a l IH]; intros s; cbn [fold_left]; [apply le_refl|]. eapply le_trans; [apply H|apply IH]. Qed.
  Lemma reset_one_ended x k : block_ended (reset_one x k) = true -> block_ended x = true.
  Proof. destruct k; cbn; try exact id; discriminate. Qed.
  Lemma le_reset_tree s n : le s (reset_tree p s n).
  Proof. unfold reset_tree. apply le_fold. intros s0 m. apply le_set_ns. apply reset_one_ended. Qed.

  Lemma write_back_keys l n sr k x : In x (write_back l n sr k) -> exists y, In y l /\ fst y = fst x.
  Proof.
    induction l as [|[m [sr0 k0]] l IH]; cbn [write_back]; [intros []|].
    destruct (Nat.eqb m n && Nat.eqb sr0 sr).
    - intros [<-|H]; [exists (m, (sr0, k0)); split; [now left|reflexivity]|exists x; split; [now right|reflexivity]].
    - intros [<-|H]; [exists (m, (sr0, k0)); split; [now left|reflexivity]|].
      destruct (IH H) as [y [Hy Fy]]. exists y. split; [now right|exact Fy].
  Qed.

  (* ---------- registration: guarded ---------- *)
  Lemma put_int_keys l n g x : In x (put_int l n g) -> fst x = n \/ exists y, In y l /\ fst y = fst x.
  Proof.
    induction l as [|[m g0] l IH]; cbn [put_int].
    - intros [<-|[]]. now left.
    - destruct (Nat.eqb m n) eqn:E.
      + intros [<-|H]; [left; cbn; now apply Nat.eqb_eq|right; exists x; split; [now right|reflexivity]].
      + intros [<-|H]; [right; exists (m, g0); split; [now left|reflexivity]|].
        destruct (IH H) as [F|[y [Hy Fy]]]; [now left|right; exists y; split; [now right|exact Fy]].
  Qed.
  Lemma I_register s n : I s -> I (register_interrupt p s n).
  Proof.
    intros H. unfold register_interrupt. destruct (in_ended_block p s n) eqn:G; [exact H|].
    set (s1 := with_ints s _ _). intros x Hx. cbn [set_ns ints] in Hx. unfold s1 in Hx. cbn [with_ints ints] in Hx.
    assert (E : forall a, block_ended (st (set_ns s1 n (set_cond (st s1 n) (activated (st s1 n)) true (run_count (st s1 n)))) a) = true ->
                          block_ended (st s a) = true).
    { intros a. rewrite st_set_ns. destruct (_ && _) eqn:C; [|exact id]. apply andb_prop in C as [C _]. apply Nat.eqb_eq in C. subst a.
      cbn. exact id. }
    apply put_int_keys in Hx as [F|[y [Hy Fy]]].
    - rewrite F. eapply ended_mono; [exact E|exact G].
    - rewrite <- Fy. eapply ended_mono; [exact E|now apply H].
  Qed.

  (* ---------- End block: the block's interrupts are removed ---------- *)
  Section Abort.
    Variable D : list nat.
    Definition abort_f (s : S) (x : nat * (nat * stack)) : S :=
      if memn (fst x) D
      then unregister_interrupt (set_ns s (fst x) (set_kids (st s (fst x)) (child_index (st s (fst x))) true)) (fst x)
      else s.
    Lemma abort_f_le s x : le s (abort_f s x).
    Proof.
      unfold abort_f. destruct (memn (fst x) D); [|apply le_refl]. eapply le_trans; [|apply le_unregister].
      apply le_set_ns. cbn. exact id.
    Qed.
    Lemma abort_f_ints s x y : In y (ints (abort_f s x)) -> In y (ints s) /\ (fst y = fst x -> memn (fst y) D = false).
    Proof.
      unfold abort_f. destruct (memn (fst x) D) eqn:M.
      - unfold unregister_interrupt. cbn [with_ints ints set_ns]. intros H. apply del_int_in in H as [H N]. split; [exact H|]. intros F. congruence.
      - intros H. split; [exact H|]. intros F. now rewrite F.
    Qed.
    Lemma abort_fold_ints L : forall s y, In y (ints (fold_left abort_f L s)) ->
      In y (ints s) /\ (In (fst y) (map fst L) -> memn (fst y) D = false).
    Proof.
      induction L as [|x L IH]; intros s y H; cbn [fold_left] in H; [split; [exact H|intros []]|].
      destruct (IH _ _ H) as [H1 H2]. apply abort_f_ints in H1 as [H1 H3]. split; [exact H1|].
      cbn [map]. intros [F|F]; [apply H3; now symmetry|now apply H2].
    Qed.
  End Abort.

  Hypothesis T : tree.

  Lemma I_end_block s b : I s -> I (end_block p s b).
  Proof.
    intros H. unfold end_block, abort_block_interrupts. set (s0 := set_ns s b _).
    change (fun (s1 : S) (x : nat * (nat * stack)) => if memn (fst x) (descendants p b) then _ else s1) with (abort_f (descendants p b)).
    intros y Hy. pose proof (abort_fold_ints (descendants p b) (ints s0) s0 y Hy) as [Y1 Y2].
    assert (ND : memn (fst y) (descendants p b) = false) by (apply Y2; now apply in_map).
    assert (Ys : In y (ints s)) by exact Y1.
    pose proof (le_fold (abort_f (descendants p b)) (abort_f_le (descendants p b)) (ints s0) s0) as [E _].
    unfold in_ended_block. apply not_true_is_false. intros X. apply existsb_exists in X as [a [Ha Xa]].
    apply andb_prop in Xa as [B En]. apply E in En. unfold s0 in En. rewrite st_set_ns in En.
    destruct (Nat.eqb a b && Nat.ltb b (length (nodes s))) eqn:C.
    - apply andb_prop in C as [C _]. apply Nat.eqb_eq in C. subst a.
      pose proof (T _ _ Ha B) as In_d. apply memn_In in In_d. congruence.
    - assert (Z : in_ended_block p s (fst y) = true).
      { unfold in_ended_block. apply existsb_exists. exists a. split; [exact Ha|]. now rewrite B, En. }
      rewrite (H y Ys) in Z. discriminate.
  Qed.
  Lemma I_end_blocks l : forall s, I s -> I (fold_left (end_block p) l s).
  Proof. induction l as [|b l IH]; intros s H; cbn [fold_left]; [exact H|]. apply IH. now apply I_end_block. Qed.

  Ltac ll := repeat first [apply le_refl | apply le_mark_completed | apply le_complete | apply le_with_tag
                          | apply le_add_mark | apply le_add_sched | apply le_set_error
                          | apply le_unregister | apply le_reset_tree
                          | (eapply le_trans; [|apply le_mark_completed])
                          | (eapply le_trans; [|apply le_complete])
                          | (apply le_set_ns; cbn; first [exact id | discriminate]) ].

  Lemma I_step e b f k s : I s -> outcome_ok I (step p e b f k s).
  Proof.
    intros C.
    assert (NN : forall s', le s s' -> I s') by (intros s' N; now apply (I_le s)).
    destruct f; cbn [step].
    - (* FVisit *) destruct (completed (st s n)); [exact C|]. destruct (negb (started (st s n))).
      + unfold thr_loop. destruct (awaiting p e s n); [destruct (ended_here p s n k); exact C|]. unfold enter. apply NN. ll.
      + unfold enter. apply NN. ll.
    - (* FThr *) unfold thr_loop. destruct (awaiting p e s n); [destruct (ended_here p s n k); exact C|]. unfold enter. apply NN. ll.
    - (* FNodeTick: dispatch *) unfold dispatch. destruct (n_kind (nd p n)) eqn:K.
      + destruct (completed (st s n)); exact C.
      + destruct trailing; apply NN; ll.
      + destruct (completed (st s n)); [exact C|]. apply NN. ll.
      + (* KBlock *) destruct (completed (st s n)); [apply NN; ll|]. destruct (block_ended (st s n)) eqn:BE.
        * unfold block_release. apply NN. eapply le_trans; [|apply le_mark_completed]. apply le_set_ns. cbn. rewrite BE. exact id.
        * destruct (lock_acquired (st s n)); exact C.
      + (* KEndBlock *) cbn [outcome_ok]. set (s1 := match active_blocks p s with [] => s | old :: rest => _ end).
        assert (H1 : I s1).
        { unfold s1. destruct (active_blocks p s) as [|old rest]; [exact C|]. apply I_end_block. apply (I_le s); [apply le_with_tag|exact C]. }
        apply (I_le s1); [ll|exact H1].
      + (* KEndBlocks *) cbn [outcome_ok]. apply (I_le (with_tag (fold_left (end_block p) (active_blocks p s) s) None)); [ll|].
        apply (I_le (fold_left (end_block p) (active_blocks p s) s)); [apply le_with_tag|]. now apply I_end_blocks.
      + (* KWatch *) destruct (negb (interrupt_registered (st s n))); [now apply I_register|]. destruct (negb b); [exact C|].
        destruct (cancelled (st s n)); [exact C|]. unfold watch_await. destruct (activated (st s n)); [exact C|].
        destruct (cancelled (st s n)); [exact C|]. unfold try_activate. destruct (cancelled (st s n)); [exact C|].
        destruct (forced (st s n)); [apply NN; ll|]. destruct (memn n (e_cond_err e)); [exact C|].
        destruct (memn n (e_cond_true e)); [apply NN; ll|exact C].
      + (* KAlarm *) destruct (negb (interrupt_registered (st s n))); [now apply I_register|]. destruct (negb b); [exact C|].
        unfold alarm_await. destruct (activated (st s n)); [exact C|]. unfold try_activate. destruct (cancelled (st s n)); [exact C|].
        destruct (forced (st s n)); [apply NN; ll|]. destruct (memn n (e_cond_err e)); [exact C|].
        destruct (memn n (e_cond_true e)); [apply NN; ll|exact C].
      + (* KWait *) set (s1 := set_ns s n _). assert (N1 : le s s1) by (unfold s1; ll).
        destruct (dur - 1 <? 0); [now apply NN|]. destruct (_ && _); [now apply NN|]. apply NN.
        eapply le_trans; [exact N1|]. ll.
      + (* KNoop *) destruct count as [|[|c]]; apply NN; ll.
      + apply NN. ll.
      + apply NN. ll.
      + apply NN. ll.
      + (* KInjected *) exact C.
      + (* KMacro *) destruct (interrupt_registered (st s n)); [exact C|]. apply NN.
        set (s1 := with_macros s _). apply (le_trans s s1); [now apply le_same|]. apply le_set_ns. cbn. exact id.
      + (* KCallMacro *) destruct (macro_lookup (macros s) name) as [m|]; [|exact C].
        destruct (would_recurse p s name m); [exact C|]. destruct (n_kind (nd p m)); try exact C. destruct (Nat.leb _ _); [|exact C]. apply NN.
        eapply le_trans; [apply le_reset_tree|]. apply le_set_ns. cbn. exact id.
    - exact C.
    - destruct (_ || _); exact C.
    - (* FKids *) destruct (nth_error (n_children (nd p n)) i) as [c|]; [|apply NN; ll].
      destruct (_ || _); [apply NN; ll|]. destruct (Nat.ltb i _); [exact C|]. destruct (ended_here p s c k); [apply NN; ll|exact C].
    - apply NN. ll.
    - exact C.
    - exact C.
    - exact C.
    - apply NN. ll.
    - exact C.
    - apply NN. ll.
    - (* FBlkA *) destruct (lock_acquired (st s n)); [exact C|]. unfold block_try. destruct (can_lock p s n); [|exact C].
      apply NN. eapply le_trans; [|apply le_with_tag]. ll.
    - (* FBlkWait *) destruct (lock_acquired (st s n)); [exact C|]. unfold block_try. destruct (can_lock p s n); [|exact C].
      apply NN. eapply le_trans; [|apply le_with_tag]. ll.
    - exact C.
    - (* FBlkC *) unfold block_wait_end. destruct (block_ended (st s n)) eqn:BE; [|exact C]. unfold block_release. apply NN.
      eapply le_trans; [|apply le_mark_completed]. apply le_set_ns. cbn. rewrite BE. exact id.
    - unfold block_wait_end. destruct (block_ended (st s n)) eqn:BE; [|exact C]. unfold block_release. apply NN.
      eapply le_trans; [|apply le_mark_completed]. apply le_set_ns. cbn. rewrite BE. exact id.
    - (* FWait *) destruct (_ && _).
      + destruct (wait_start (st s n)); [exact C|]. destruct (n_kind (nd p n)); try exact C. destruct (0 <? dur - 1); exact C.
      + apply NN. ll.
    - (* FNoop *) destruct (n_kind (nd p n)); try exact C. destruct (Nat.ltb _ _); [exact C|apply NN; ll].
    - (* FWatchAwait *) unfold watch_await. destruct (activated (st s n)); [exact C|].
      destruct (cancelled (st s n)); [exact C|]. unfold try_activate. destruct (cancelled (st s n)); [exact C|].
      destruct (forced (st s n)); [apply NN; ll|]. destruct (memn n (e_cond_err e)); [exact C|].
      destruct (memn n (e_cond_true e)); [apply NN; ll|exact C].
    - exact C.
    - apply NN. ll.
    - (* FAlarmAwait *) destruct (n_kind (nd p n)); try exact C. unfold alarm_await. destruct (activated (st s n)); [exact C|]. unfold try_activate. destruct (cancelled (st s n)); [exact C|].
      destruct (forced (st s n)); [apply NN; ll|]. destruct (memn n (e_cond_err e)); [exact C|].
      destruct (memn n (e_cond_true e)); [apply NN; ll|exact C].
    - exact C.
    - exact C.
    - (* FAlarmPost *) destruct (n_kind (nd p n)); try exact C. cbv zeta. cbn [outcome_ok]. apply I_register. apply NN.
      eapply le_trans; [|apply le_reset_tree]. eapply le_trans; [|apply le_unregister]. eapply le_trans; [apply le_mark_completed|].
      apply le_set_ns. cbn. exact id.
    - (* FInjAfter *) apply NN. ll.
    - (* FMacro1 *) apply NN. ll.
    - (* FCallAfter *) apply NN. eapply le_trans; [|apply le_mark_completed]. eapply le_trans; [|apply le_complete].
      apply le_set_ns. cbn. exact id.
  Qed.

  Lemma I_init : I (init p). Proof. intros x []. Qed.

  Definition pending_ok (v : view) : Prop := no_pending_in_ended p v = true.
  Lemma I_view s raised : I s -> pending_ok (view_of s raised).
  Proof.
    intros H. unfold pending_ok, no_pending_in_ended, view_of. cbn [v_ints]. apply forallb_forall. intros i Hi.
    apply in_map_iff in Hi as [x [Fx Hx]]. subst i. specialize (H x Hx). unfold in_ended_block in H.
    apply negb_true_iff. exact H.
  Qed.

  Theorem no_pending_always ts : Forall pending_ok (InterpRun.run (p, ts)).
  Proof.
    unfold InterpRun.run. cbn [fst snd]. apply (run_views_P p I).
    - intros e b f k s H. now apply I_step.
    - intros s n H. apply (I_le s); [|exact H]. eapply le_trans; [|apply le_set_error]. apply le_set_ns. cbn. exact id.
    - intros s n sr k H. apply (I_le s); [|exact H]. apply le_keys. intros x Hx. now apply write_back_keys in Hx.
    - intros s n H. apply (I_le s); [apply le_mark_completed|exact H].
    - intros s H. apply (I_le s); [now apply le_same|exact H].
    - intros s raised H. now apply I_view.
    - apply I_init.
  Qed.
End Pending.
