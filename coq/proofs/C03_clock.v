(* C03: the threshold decision of _is_awaiting_threshold. *)
From Coq Require Import ZArith List Bool Arith Lia.
From OP Require Import lib.Obs model.Interp model.InterpRun model.C02 model.C03.
Open Scope Z_scope.

Lemma awaiting_spec k :
  awaiting_threshold k = true <->
  k_completed k = false /\ k_has_thr k = true /\ k_forced k = false /\ scope_clock k < 10 * k_thr k * factor (k_base k).
Proof.
  unfold awaiting_threshold. rewrite !andb_true_iff, !negb_true_iff, Z.ltb_lt. tauto.
Qed.

Lemma awaiting_ignores_interrupt k b :
  awaiting_threshold {| k_completed := k_completed k; k_has_thr := k_has_thr k; k_forced := k_forced k; k_in_interrupt := b;
                        k_block := k_block k; k_base := k_base k; k_thr := k_thr k; k_scope_time := k_scope_time k;
                        k_block_time := k_block_time k |} = awaiting_threshold k.
Proof. reflexivity. Qed.

(* once the clock of the scope has reached the threshold the line is never held back, whatever the other clock shows *)
Lemma reached_not_awaiting k : 10 * k_thr k * factor (k_base k) <= scope_clock k -> awaiting_threshold k = false.
Proof.
  intros H. unfold awaiting_threshold. replace (scope_clock k <? _) with false by (symmetry; apply Z.ltb_ge; exact H).
  now rewrite andb_false_r.
Qed.

Lemma monitor_agrees k : holds_b (IClock k) (run (IClock k)) = true.
Proof. cbn [holds_b run]. unfold awaiting_threshold, scope_clock. apply eqb_reflx. Qed.
