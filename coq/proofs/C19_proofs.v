(* C19: proofs about the analyzers' decision logic (finite case analysis over the facts they test). *)
From Coq Require Import List Bool Arith.
From OP Require Import lib.Obs model.C19.
Import ListNotations.

Lemma resolve_undefined l : l_defined l = false -> resolve l = LSuggest \/ resolve l = LUnknown.
Proof. intros H. unfold resolve. rewrite H. destruct (_ && _); auto. Qed.

Theorem line_always_ok l :
  line_ok l (match l with LCond c => analyze_condition c | LSim c => analyze_simulate c | LSimOff o => analyze_simoff o
                        | LCmd k => analyze_command k end) = true.
Proof.
  destruct l as [c|c|o|k].
  - destruct c as [a b [d e f g] h i j k l m n]; destruct a, b, d, e, f, g, h, i, j, k, l, m, n; reflexivity.
  - destruct c as [a b [d e f g] h i j k l m n]; destruct a, b, d, e, f, g, h, i, j, k, l, m, n; reflexivity.
  - destruct o as [a [d e f g]]; destruct a, d, e, f, g; reflexivity.
  - destruct k as [[d e f g] a b]; destruct a, b, d, e, f, g; reflexivity.
Qed.

Theorem run_holds i : holds_b i (run i) = true.
Proof.
  unfold holds_b. apply andb_true_intro. split; [|unfold run; rewrite map_length; apply Nat.eqb_refl].
  induction i as [|l i IH]; [reflexivity|]. cbn [run map combine forallb fst snd]. fold (run i). rewrite IH, andb_true_r.
  apply line_always_ok.
Qed.

(* the code before the fix crashed on a long undefined tag without a close match in an otherwise complete condition *)
Example old_code_crashed :
  analyze_condition_old {| c_present := true; c_tag_blank := false;
                           c_lookup := {| l_defined := false; l_long := true; l_any := true; l_similar := false |};
                           c_op_ok := true; c_value_empty := false; c_tag_unit := false; c_cond_unit := false;
                           c_rhs_is_unit := false; c_unit_error := false; c_comparable := false |} = DCrash.
Proof. reflexivity. Qed.
