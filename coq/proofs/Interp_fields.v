(* "Who writes what" in the interpreter model: a per-node relation A e m x x' (allowed change of node m's state during a
   tick with environment e) that is closed under the elementary updates the transitions perform holds between the state
   before and after every tick. *)
From Coq Require Import ZArith List Bool Arith Lia.
From OP Require Import lib.Obs model.Interp model.InterpRun proofs.Interp_inv proofs.C05_proofs.
Import ListNotations.
Open Scope Z_scope.

Section Fields.
  Variable p : program.
  Variable e : env.
  Variable A : nat -> ns -> ns -> Prop.
  Variable En : nat -> Prop.          (* the lines the transition at hand may start (all of them, for a whole tick) *)

  Hypothesis H_refl : forall m x, A m x x.
  Hypothesis H_trans : forall m x y z, A m x y -> A m y z -> A m x z.
  Hypothesis H_completed : forall m x, A m x (set_completed x true).
  Hypothesis H_failed : forall m x, A m x (set_failed x true).
  Hypothesis H_kids : forall m x a b, A m x (set_kids x a b).
  (* the three ways a block's lock / ended flags change: the lock is taken; End block(s) ends it; the lock is given back by a
     block that has ended or had completed already *)
  Hypothesis H_lock : forall m x, A m x (set_block x true (block_ended x)).
  Hypothesis H_end : forall m x, A m x (set_block x (lock_acquired x) true).
  Hypothesis H_unlock : forall m x, block_ended x = true \/ completed x = true -> A m x (set_block x false (block_ended x)).
  Hypothesis H_wait : forall m x w, A m x (set_wait x w).
  Hypothesis H_cond_keep : forall m x i r, A m x (set_cond x (activated x) i r).
  Hypothesis H_activate : forall m x,
    (forced x = true \/ (memn m (e_cond_err e) = false /\ memn m (e_cond_true e) = true)) ->
    cancelled x = false ->                                     (* a cancelled node is never activated *)
    A m x (set_cond x true (interrupt_registered x) (run_count x)).
  Hypothesis H_enter : forall m x, En m ->
    (started x = true \/ (negb (completed x) && n_thr (nd p m) && negb (forced x) && memn m (e_thr_wait e)) = false) ->
    A m x (set_started x true).
  Hypothesis H_blank_idle : forall m x, n_kind (nd p m) = KBlank true -> A m x (set_started x false).
  Hypothesis H_blank_start : forall m x, n_kind (nd p m) = KBlank false -> A m x (set_started x true).
  (* a subtree is reset when an Alarm re-arms and when a macro is called again *)
  Hypothesis H_reset : forall a m x, (n_kind (nd p a) = KAlarm \/ exists nm, n_kind (nd p a) = KMacro nm) ->
    (m = a \/ In m (descendants p a)) -> A m x (reset_one x (n_kind (nd p m))).

  Definition okS (s s' : S) : Prop := forall m, A m (st s m) (st s' m).
  Lemma ok_refl s : okS s s. Proof. intros m. apply H_refl. Qed.
  Lemma ok_trans a b c : okS a b -> okS b c -> okS a c. Proof. intros H1 H2 m. eapply H_trans; eauto. Qed.
  Lemma ok_same s s' : nodes s' = nodes s -> okS s s'.
  Proof. intros H m. unfold st. rewrite H. apply H_refl. Qed.
  Lemma ok_set_ns s n x : A n (st s n) x -> okS s (set_ns s n x).
  Proof.
    intros H m. rewrite (st_set_ns s n x m). destruct (Nat.eqb m n && Nat.ltb n (length (nodes s))) eqn:E; [|apply H_refl].
    apply andb_prop in E as [E _]. apply Nat.eqb_eq in E. now subst.
  Qed.
  Lemma ok_fold {B} (f : S -> B -> S) (Q : B -> Prop) : (forall s a, Q a -> okS s (f s a)) ->
    forall l s, Forall Q l -> okS s (fold_left f l s).
  Proof.
    intros H. induction l as [|a l IH]; intros s F; cbn [fold_left]; [apply ok_refl|].
    eapply ok_trans; [apply H; exact (Forall_inv F)|apply IH; exact (Forall_inv_tail F)].
  Qed.

  Lemma ok_complete s n : okS s (complete s n). Proof. apply ok_set_ns. apply H_completed. Qed.
  Lemma ok_mark_completed s n : okS s (mark_completed s n).
  Proof. unfold mark_completed. destruct (failed (st s n)); [apply ok_refl|]. apply ok_set_ns. apply H_completed. Qed.
  Lemma ok_register s n : okS s (register_interrupt p s n).
  Proof.
    unfold register_interrupt. destruct (in_ended_block p s n); [apply ok_refl|]. set (s1 := with_ints s _ _). eapply ok_trans; [apply (ok_same s s1); reflexivity|].
    apply ok_set_ns. apply H_cond_keep.
  Qed.
  Lemma ok_unregister s n : okS s (unregister_interrupt s n).
  Proof.
    unfold unregister_interrupt. set (s1 := set_ns s n _). eapply ok_trans; [|apply (ok_same s1 _); reflexivity].
    apply ok_set_ns. apply H_cond_keep.
  Qed.
  Lemma ok_abort s b : okS s (abort_block_interrupts p s b).
  Proof.
    unfold abort_block_interrupts. apply (ok_fold _ (fun _ => True)); [|apply Forall_forall; auto].
    intros s0 x _. destruct (memn (fst x) (descendants p b)); [|apply ok_refl].
    eapply ok_trans; [|apply ok_unregister]. apply ok_set_ns. apply H_kids.
  Qed.
  Lemma ok_end_block s b : okS s (end_block p s b).
  Proof. unfold end_block. eapply ok_trans; [|apply ok_abort]. apply ok_set_ns. apply H_end. Qed.
  Lemma ok_end_blocks l s : okS s (fold_left (end_block p) l s).
  Proof. apply (ok_fold _ (fun _ => True)); [intros; apply ok_end_block|apply Forall_forall; auto]. Qed.
  Lemma ok_reset_tree s a : (n_kind (nd p a) = KAlarm \/ exists nm, n_kind (nd p a) = KMacro nm) -> okS s (reset_tree p s a).
  Proof.
    intros K. unfold reset_tree. apply (ok_fold _ (fun m => m = a \/ In m (descendants p a))).
    - intros s0 m Hm. apply ok_set_ns. now apply (H_reset a).
    - constructor; [now left|]. apply Forall_forall. intros x Hx. now right.
  Qed.
  Lemma ok_with_tag s t : okS s (with_tag s t). Proof. apply ok_same. reflexivity. Qed.
  Lemma ok_add_mark s n : okS s (add_mark s n). Proof. apply ok_same. reflexivity. Qed.
  Lemma ok_add_sched s : okS s (add_sched s). Proof. apply ok_same. reflexivity. Qed.
  Lemma ok_set_error s n : okS s (set_error s n). Proof. apply ok_same. reflexivity. Qed.

  Lemma ok_enter s n : En n -> (started (st s n) = true \/ awaiting p e s n = false) -> okS s (set_ns s n (set_started (st s n) true)).
  Proof. intros E H. apply ok_set_ns. apply H_enter; assumption. Qed.

  Lemma ok_try_activate s n s' : try_activate e s n = Some s' -> okS s s'.
  Proof.
    unfold try_activate. destruct (cancelled (st s n)) eqn:NC; [intros H; inversion H; subst; apply ok_refl|].
    destruct (forced (st s n)) eqn:Ef.
    - intros H. inversion H; subst. apply ok_set_ns. apply H_activate; [now left|exact NC].
    - destruct (memn n (e_cond_err e)) eqn:Ee; [discriminate|]. destruct (memn n (e_cond_true e)) eqn:Et.
      + intros H. inversion H; subst. apply ok_set_ns. apply H_activate; [right; now split|exact NC].
      + intros H. inversion H; subst. apply ok_refl.
  Qed.

  Definition out_state (o : outcome) : S := match o with Yield _ _ s' => s' | Go _ s' => s' | Raise _ s' => s' end.

  Ltac ok := repeat first [apply ok_refl | apply ok_mark_completed | apply ok_complete | apply ok_with_tag | apply ok_add_mark
                          | apply ok_add_sched | apply ok_set_error | apply ok_register | apply ok_unregister | apply ok_end_block
                          | apply ok_end_blocks
                          | (eapply ok_trans; [|apply ok_mark_completed])
                          | (eapply ok_trans; [|apply ok_complete])
                          | (eapply ok_trans; [|apply ok_register])
                          | (apply ok_set_ns; first [apply H_kids | apply H_lock | apply H_end | apply H_wait | apply H_completed | apply H_failed
                                                    | apply H_cond_keep]) ].

  (* only the transitions of visit (FVisit n, FThr n) start a line, and only line n *)
  Lemma step_okG b f k s : (forall n, f = FVisit n \/ f = FThr n -> En n) -> okS s (out_state (step p e b f k s)).
  Proof.
    intros HE. destruct f; cbn [step].
    - (* FVisit *) destruct (completed (st s n)) eqn:Ec; [apply ok_refl|]. destruct (negb (started (st s n))) eqn:Es.
      + unfold thr_loop. destruct (awaiting p e s n) eqn:Ea; [destruct (ended_here p s n k); apply ok_refl|].
        unfold enter. cbn [out_state]. apply ok_enter; [apply HE; now left|]. now right.
      + unfold enter. cbn [out_state]. apply ok_enter; [apply HE; now left|]. left. now apply negb_false_iff in Es.
    - (* FThr *) unfold thr_loop. destruct (awaiting p e s n) eqn:Ea; [destruct (ended_here p s n k); apply ok_refl|].
      unfold enter. cbn [out_state]. apply ok_enter; [apply HE; now right|]. now right.
    - (* dispatch *) unfold dispatch. destruct (n_kind (nd p n)) eqn:K.
      + destruct (completed (st s n)); apply ok_refl.
      + destruct trailing; cbn [out_state]; apply ok_set_ns; [now apply H_blank_idle|now apply H_blank_start].
      + destruct (completed (st s n)); cbn [out_state]; ok.
      + destruct (completed (st s n)) eqn:Ec; [cbn [out_state]; apply ok_set_ns; apply H_unlock; right; exact Ec|].
        destruct (block_ended (st s n)) eqn:Eb.
        * unfold block_release. cbn [out_state]. eapply ok_trans; [|apply ok_mark_completed]. apply ok_set_ns.
          eapply H_trans; [apply H_unlock; left; exact Eb|]. eapply H_trans; [apply H_kids|apply H_completed].
        * destruct (lock_acquired (st s n)); apply ok_refl.
      + cbn [out_state]. eapply ok_trans; [|apply ok_mark_completed]. eapply ok_trans; [|apply ok_complete].
        destruct (active_blocks p s) as [|old rest]; [apply ok_refl|]. eapply ok_trans; [apply ok_with_tag|apply ok_end_block].
      + cbn [out_state]. eapply ok_trans; [|apply ok_mark_completed]. eapply ok_trans; [|apply ok_complete].
        eapply ok_trans; [apply ok_end_blocks|apply ok_with_tag].
      + destruct (negb (interrupt_registered (st s n))); [cbn [out_state]; ok|]. destruct (negb b); [apply ok_refl|].
        destruct (cancelled (st s n)) eqn:Ecn; [apply ok_refl|]. unfold watch_await. destruct (activated (st s n)); [apply ok_refl|].
        rewrite Ecn. destruct (try_activate e s n) as [s'|] eqn:T; [|apply ok_refl].
        cbn [out_state]. now apply (ok_try_activate s n).
      + destruct (negb (interrupt_registered (st s n))); [cbn [out_state]; ok|]. destruct (negb b); [apply ok_refl|].
        unfold alarm_await. destruct (activated (st s n)); [apply ok_refl|].
        destruct (try_activate e s n) as [s'|] eqn:T; [|apply ok_refl]. cbn [out_state].
        now apply (ok_try_activate s n).
      + set (s1 := set_ns s n _). assert (N1 : okS s s1) by (unfold s1; ok).
        destruct (dur - 1 <? 0); [exact N1|]. destruct (_ && _); [exact N1|]. cbn [out_state].
        eapply ok_trans; [exact N1|]. ok.
      + destruct count as [|[|c]]; cbn [out_state]; ok.
      + cbn [out_state]. ok.
      + cbn [out_state]. ok.
      + cbn [out_state]. ok.
      + apply ok_refl.
      + (* KMacro *) destruct (interrupt_registered (st s n)); [apply ok_refl|]. cbn [out_state].
        set (s1 := with_macros s _). eapply ok_trans; [apply (ok_same s s1); reflexivity|]. apply ok_set_ns. apply H_cond_keep.
      + (* KCallMacro *) destruct (macro_lookup (macros s) name) as [m|]; [|apply ok_refl].
        destruct (would_recurse p s name m); [apply ok_refl|]. destruct (n_kind (nd p m)) eqn:Km; try apply ok_refl.
        destruct (Nat.leb _ _); [|apply ok_refl]. cbn [out_state].
        eapply ok_trans; [apply ok_reset_tree; right; eauto|]. apply ok_set_ns. apply H_cond_keep.
    - apply ok_refl.
    - destruct (_ || _); apply ok_refl.
    - destruct (nth_error (n_children (nd p n)) i) as [c|]; [|cbn [out_state]; ok].
      destruct (_ || _); [cbn [out_state]; ok|]. destruct (Nat.ltb i _); [apply ok_refl|].
      destruct (ended_here p s c k); [cbn [out_state]; ok|apply ok_refl].
    - cbn [out_state]. ok.
    - apply ok_refl.
    - apply ok_refl.
    - apply ok_refl.
    - cbn [out_state]. ok.
    - apply ok_refl.
    - cbn [out_state]. ok.
    - destruct (lock_acquired (st s n)); [apply ok_refl|]. unfold block_try. destruct (can_lock p s n); [|apply ok_refl].
      cbn [out_state]. eapply ok_trans; [|apply ok_with_tag]. ok.
    - destruct (lock_acquired (st s n)); [apply ok_refl|]. unfold block_try. destruct (can_lock p s n); [|apply ok_refl].
      cbn [out_state]. eapply ok_trans; [|apply ok_with_tag]. ok.
    - apply ok_refl.
    - unfold block_wait_end. destruct (block_ended (st s n)) eqn:Eb; [|apply ok_refl]. unfold block_release. cbn [out_state].
      eapply ok_trans; [|apply ok_mark_completed]. apply ok_set_ns.
      eapply H_trans; [apply H_unlock; left; exact Eb|]. eapply H_trans; [apply H_kids|apply H_completed].
    - unfold block_wait_end. destruct (block_ended (st s n)) eqn:Eb; [|apply ok_refl]. unfold block_release. cbn [out_state].
      eapply ok_trans; [|apply ok_mark_completed]. apply ok_set_ns.
      eapply H_trans; [apply H_unlock; left; exact Eb|]. eapply H_trans; [apply H_kids|apply H_completed].
    - destruct (_ && _).
      + destruct (wait_start (st s n)); [apply ok_refl|]. destruct (n_kind (nd p n)); try apply ok_refl. destruct (0 <? dur - 1); apply ok_refl.
      + cbn [out_state]. ok.
    - destruct (n_kind (nd p n)); try apply ok_refl. destruct (Nat.ltb _ _); [apply ok_refl|cbn [out_state]; ok].
    - unfold watch_await. destruct (activated (st s n)); [apply ok_refl|]. destruct (cancelled (st s n)) eqn:Ecn; [apply ok_refl|].
      destruct (try_activate e s n) as [s'|] eqn:T; [|apply ok_refl]. cbn [out_state].
      now apply (ok_try_activate s n).
    - apply ok_refl.
    - cbn [out_state]. ok.
    - destruct (n_kind (nd p n)) eqn:K; try apply ok_refl.
      unfold alarm_await. destruct (activated (st s n)); [apply ok_refl|].
      destruct (try_activate e s n) as [s'|] eqn:T; [|apply ok_refl]. cbn [out_state].
      now apply (ok_try_activate s n).
    - apply ok_refl.
    - apply ok_refl.
    - destruct (n_kind (nd p n)) eqn:K; try apply ok_refl. cbv zeta. cbn [out_state].
      eapply ok_trans; [|apply ok_register]. eapply ok_trans; [|apply ok_reset_tree; now left].
      eapply ok_trans; [|apply ok_unregister]. eapply ok_trans; [apply ok_mark_completed|].
      apply ok_set_ns. apply H_cond_keep.
    - (* FInjAfter *) cbn [out_state]. ok.
    - (* FMacro1 *) cbn [out_state]. ok.
    - (* FCallAfter *) cbn [out_state]. eapply ok_trans; [|apply ok_mark_completed]. eapply ok_trans; [|apply ok_complete].
      apply ok_set_ns. eapply H_trans; [apply H_completed|apply H_wait].
  Qed.

  (* one tick *)
  Hypothesis En_all : forall n, En n.
  Lemma step_ok b f k s : okS s (out_state (step p e b f k s)).
  Proof. apply step_okG. intros n _. apply En_all. Qed.
  Theorem tick_ok rounds fuel main s main' s' raised :
    tick p rounds fuel e main s = Some (main', s', raised) -> okS s s'.
  Proof.
    intros T.
    refine (tick_P p e (fun x => okS s x) _ _ _ _ rounds fuel main s main' s' raised (ok_refl s) T).
    - intros b f k s0 H. pose proof (step_ok b f k s0) as O.
      destruct (step p e b f k s0); cbn [outcome_ok out_state] in *; eapply ok_trans; eauto.
    - intros s0 n H. eapply ok_trans; [exact H|]. eapply ok_trans; [|apply ok_set_error]. apply ok_set_ns. apply H_failed.
    - intros s0 n sr k H. eapply ok_trans; [exact H|]. apply ok_same. reflexivity.
    - intros s0 H. eapply ok_trans; [exact H|]. apply ok_same. reflexivity.
  Qed.

  (* the command manager's completions before the tick *)
  Lemma complete_cmds_ok l : forall s, okS s (fold_left (complete_cmd p) l s).
  Proof.
    induction l as [|n l IH]; intros s; cbn [fold_left]; [apply ok_refl|]. eapply ok_trans; [|apply IH].
    unfold complete_cmd. destruct (n_kind (nd p n)); try apply ok_refl.
    destruct (started (st s n) && negb (completed (st s n))); [apply ok_mark_completed|apply ok_refl].
  Qed.
End Fields.
