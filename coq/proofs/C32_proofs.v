From Coq Require Import List Bool Arith String Lia.
From OP Require Import lib.Obs gen.Routes model.C32.
Import ListNotations.
Local Open Scope list_scope.

Lemma mem_In x l : mem x l = true <-> In x l.
Proof.
  unfold mem. rewrite existsb_exists. split.
  - intros [y [H E]]. apply Nat.eqb_eq in E. now subst.
  - intros H. exists x. split; [exact H|apply Nat.eqb_refl].
Qed.

(* has_access refuses exactly when the required set is non-empty and disjoint from the user's roles *)
Lemma has_access_spec required user :
  has_access required user = false <-> required <> [] /\ forall r, In r required -> ~ In r user.
Proof.
  unfold has_access. destruct required as [|a l].
  - split; [discriminate|intros [H _]; congruence].
  - split.
    + intros H. split; [discriminate|]. intros r Hr Hu.
      assert (existsb (fun r0 => mem r0 user) (a :: l) = true); [|congruence].
      apply existsb_exists. exists r. split; [exact Hr|now apply mem_In].
    + intros [_ H]. apply not_true_is_false. intros E. apply existsb_exists in E as [r [Hr Hm]].
      apply mem_In in Hm. exact (H r Hr Hm).
Qed.

Lemma has_access_open user : has_access [] user = true.
Proof. reflexivity. Qed.

Lemma lacks_all_iff required user : lacks_all required user = negb (has_access required user).
Proof. unfold lacks_all, has_access. now destruct required. Qed.

(* a guarded handler refuses a user who lacks every required role, before its body runs *)
Lemma guarded_refuses required user :
  required <> [] -> (forall r, In r required -> ~ In r user) ->
  handle Guarded (Some required) user = R403.
Proof.
  intros H1 H2. cbn. assert (E : has_access required user = false) by (apply has_access_spec; auto). now rewrite E.
Qed.

Lemma guarded_open user : handle Guarded (Some []) user = RPass.
Proof. reflexivity. Qed.

Lemma guarded_member required user r :
  In r required -> In r user -> handle Guarded (Some required) user = RPass.
Proof.
  intros H1 H2. cbn. destruct (has_access required user) eqn:E; [reflexivity|].
  apply has_access_spec in E as [_ E]. exfalso. exact (E r H1 H2).
Qed.

Lemma listing_filtered objs user :
  listing ListingFiltered objs user = map (fun required => has_access required user) objs.
Proof. reflexivity. Qed.

(* the model satisfies the monitor on every route that is Guarded / NoObject / ListingFiltered *)
Definition kind_ok (k : guard_kind) : bool :=
  match k with Guarded | ListingFiltered | NoObject => true | _ => false end.


Lemma monitor_sound_guarded i obj user :
  kind_of i = Guarded -> holds_b (QRoute i obj user) (run (QRoute i obj user)) = true.
Proof.
  intros K. cbn [run holds_b]. rewrite K. cbn [handle].
  destruct obj as [required|]; cbn [guard]; [|reflexivity].
  rewrite lacks_all_iff. destruct (has_access required user) eqn:E; cbn; [destruct required; reflexivity|reflexivity].
Qed.

Lemma monitor_sound_listing i objs user :
  kind_of i = ListingFiltered -> holds_b (QList i objs user) (run (QList i objs user)) = true.
Proof.
  intros K. cbn [run holds_b]. rewrite K. cbn [listing]. rewrite map_length, Nat.eqb_refl. cbn [andb].
  apply forallb_forall. intros [required shown] Hin. cbn [fst snd].
  assert (shown = has_access required user).
  { clear K. induction objs as [|o objs IH]; cbn in Hin; [contradiction|].
    destruct Hin as [E|Hin]; [inversion E; reflexivity|auto]. }
  subst shown. rewrite lacks_all_iff. destruct (has_access required user); cbn; [destruct required; reflexivity|reflexivity].
Qed.
