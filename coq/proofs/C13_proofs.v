(* C13: proofs (engine-core part). *)
From Coq Require Import ZArith List Bool Arith Lia.
From OP Require Import lib.Obs model.Eng model.EngRun model.C13 proofs.Eng_state proofs.Eng_prims.
Import ListNotations.
Open Scope Z_scope.

Section C13.
  Variable safe : list (option Z).
  Variable overlaps : list (list nat).

  (* set_error_state: paused, Method Status Error, error remembered, System State Paused; the run stays as it is *)
  Lemma error_state_law e :
    let e' := set_error_state e in
    paused e' = true /\ m_err e' = true /\ last_err e' = true /\ sys e' = Paused /\ started e' = started e
    /\ trace e' = trace e ++ [EError].
  Proof. cbv zeta. repeat split. Qed.

  (* the event trace only grows *)
  Lemma prim_trace e e' : prim safe e e' -> exists l, trace e' = trace e ++ l.
  Proof.
    intros P. destruct P; try (exists []; rewrite app_nil_r; reflexivity).
    - (* update_clocks *) eexists. unfold update_clocks. cbv zeta. cbn [emit trace].
      replace (trace (advance_clocks e dt)) with (trace e); [reflexivity|].
      unfold advance_clocks. cbv zeta. destruct (bpaused e || _); reflexivity.
    - eexists. reflexivity.
    - eexists. reflexivity.
    - eexists. reflexivity.
    - (* write_image *) unfold write_image. destruct (negb (started e)); [exists []; now rewrite app_nil_r|].
      destruct (wok e); [eexists; reflexivity|]. destruct (last_err e); [exists []; now rewrite app_nil_r|eexists; reflexivity].
    - eexists. reflexivity.
    - (* unpause *) exists [EUnpause (prev e)]. unfold unpause_body. cbv zeta. cbn [emit prev set_sys upd_flags].
      destruct (prev e); reflexivity.
    - exists []. rewrite app_nil_r. unfold unhold_body. destruct (paused e); reflexivity.
    - (* pause *) unfold pause_begin. cbv zeta. set (e1 := set_sys _ _).
      assert (T : trace (fst (apply_safe safe e1)) = trace e).
      { unfold apply_safe. destruct (safe_from 0 safe (outs e1)). reflexivity. }
      destruct (apply_safe safe e1) as [e2 c]. cbn [fst] in T. eexists. cbn [set_clk emit set_io trace]. rewrite T. reflexivity.
    - exists []. rewrite app_nil_r. unfold hold_begin. destruct (paused e); reflexivity.
    - eexists. reflexivity.
    - (* stop_core *) unfold stop_core.
      assert (T : trace (stop_pre safe e) = trace e ++ [EStoppedRun]).
      { unfold stop_pre, apply_safe. destruct (safe_from 0 safe (outs e)). reflexivity. }
      remember (stop_pre safe e) as e4 eqn:E4. clear E4.
      unfold write_image. destruct (negb (started e4)); [eexists; cbn [stop_flags upd_flags trace]; exact T|].
      destruct (wok e4).
      + eexists. cbn [stop_flags upd_flags emit set_io trace]. rewrite T, <- app_assoc. reflexivity.
      + destruct (last_err e4); [eexists; cbn [stop_flags upd_flags trace]; exact T|].
        eexists. unfold set_error_state. cbn [stop_flags upd_flags emit set_sys set_err trace]. rewrite T, <- app_assoc. reflexivity.
    - eexists. reflexivity.
    - eexists. reflexivity.
    - eexists. reflexivity.
  Qed.

  Lemma star_trace e e' : star safe e e' -> exists l, trace e' = trace e ++ l.
  Proof.
    induction 1 as [e|e1 e2 e3 P S IH]; [exists []; now rewrite app_nil_r|].
    destruct (prim_trace _ _ P) as [l1 H1]. destruct IH as [l2 H2]. exists (l1 ++ l2). now rewrite H2, H1, app_assoc.
  Qed.

  (* an interpreter error in a tick in which the interpreter runs reaches set_error_state: the tick's events contain it *)
  Lemma interp_error_routed e i :
    interp_runs (if t_read_ok i then set_now e (t_time i) (t_write_ok i)
                 else if last_err (set_now e (t_time i) (t_write_ok i)) then set_now e (t_time i) (t_write_ok i)
                      else set_error_state (set_now e (t_time i) (t_write_ok i))) = true ->
    t_interp_raises i = true ->
    exists l1 l2, trace (tick safe overlaps e i) = trace e ++ l1 ++ [EError] ++ l2.
  Proof.
    intros Hr Hx. unfold tick. cbv zeta.
    set (e0 := set_now e (t_time i) (t_write_ok i)) in *.
    set (e1 := if t_read_ok i then e0 else if last_err e0 then e0 else set_error_state e0) in *.
    rewrite Hr, Hx.
    set (e' := fold_left (schedule) (t_interp i) e1).
    set (e'' := match iticks e' with O => set_iticks e' 1 | S O => set_iticks (root_push e') 2 | _ => e' end).
    assert (S1 : star safe e e'').
    { assert (S01 : star safe e e1).
      { eapply star_step; [apply P_now|]. fold e0. unfold e1. destruct (t_read_ok i); [apply star_refl|].
        destruct (last_err e0); [apply star_refl|apply star_one; apply P_error]. }
      eapply star_trans; [exact S01|]. eapply star_trans; [apply fold_schedule_star|]. fold e'.
      unfold e''. destruct (iticks e') as [|[|k]]; [apply star_one; apply P_iticks| |apply star_refl].
      eapply star_step; [apply P_root|]. apply star_one. apply P_iticks. }
    destruct (star_trace _ _ S1) as [l1 H1].
    set (e2 := set_error_state e'').
    assert (H2 : trace e2 = trace e ++ l1 ++ [EError]).
    { unfold e2. destruct (error_state_law e'') as [_ [_ [_ [_ [_ T]]]]]. rewrite T, H1. now rewrite <- app_assoc. }
    set (e3 := if started e2 then update_clocks e2 (t_dt i) else e2).
    assert (S3 : star safe e2 e3) by (unfold e3; destruct (started e2) eqn:Es2; [apply star_one; apply P_clocks; exact Es2|apply star_refl]).
    pose proof (execute_commands_star safe overlaps e3) as K.
    destruct (execute_commands safe overlaps e3) as [e4 raised]. cbn [fst] in K.
    set (e5 := if raised then set_error_state e4 else e4).
    assert (S5 : star safe e4 e5) by (unfold e5; destruct raised; [apply star_one; apply P_error|apply star_refl]).
    assert (S25 : star safe e2 (write_image e5)).
    { eapply star_trans; [exact S3|]. eapply star_trans; [exact K|]. eapply star_snoc; [exact S5|apply P_write]. }
    destruct (star_trace _ _ S25) as [l2 H5]. exists l1, l2. rewrite H5, H2. now rewrite <- !app_assoc.
  Qed.

  (* Stop is accepted whenever the System State is Paused (in particular in the error state of an active run) *)
  Lemma stop_valid_when_paused e : sys e = Paused -> validate e Stop = true.
  Proof. intros H. unfold validate. rewrite H. reflexivity. Qed.

  (* ... and its second step ends the run *)
  Lemma stop_ends_run e : sys (stop_core safe e) = Stopped \/ sys (stop_core safe e) = Paused.
  Proof.
    unfold stop_core. destruct (stop_pre_facts safe e) as [_ [_ [_ [A _]]]].
    remember (stop_pre safe e) as e4 eqn:E4. clear E4.
    unfold write_image. destruct (negb (started e4)); [left; exact A|].
    destruct (wok e4); [left; exact A|]. destruct (last_err e4); [left; exact A|right; reflexivity].
  Qed.
End C13.
