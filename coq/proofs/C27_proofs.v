(* C27: proofs about the model of EngineRunner's recovery state machine. *)
From Coq Require Import ZArith List Bool Arith Lia.
From OP Require Import lib.Obs model.C27.
Import ListNotations.
Open Scope Z_scope.

Definition sending (s : rstate) : bool := match s with Connected | Reconnected | CatchingUp => true | _ => false end.
Definition has_id (s : rstate) : bool := match s with Connected | Reconnected | CatchingUp | Reconnecting => true | _ => false end.
Definition steady (s : rstate) : bool := match s with Connected | Reconnected => true | _ => false end.
Definition up (s : rstate) : bool := match s with Started | Stopped => false | _ => true end.

Record Inv (r : R) : Prop := {
  i_eid : has_id (st r) = true -> eid r = true;             (* a transmission always has an engine id *)
  i_started : st r = Started -> buf r = [] /\ tk r = TNone;
  i_buf : steady (st r) = true -> buf r = [];               (* nothing stranded once connected / caught up *)
  i_crash : crashed r = false;
  i_seq : Forall (fun m => exists k, mseq m = Some k /\ (k <= seqn r)%nat) (buf r) }.

(* a message is accounted for: transmitted to the aggregator in this operation, or in the buffer *)
Definition lab_in (l : Z) (r : R) : Prop := In l (map fst (out r)) \/ In l (map label (buf r)).
Definition keeps (r r' : R) : Prop := forall l, lab_in l r -> lab_in l r'.
Lemma keeps_refl r : keeps r r. Proof. intros l H. exact H. Qed.
Lemma keeps_trans a b c : keeps a b -> keeps b c -> keeps a c. Proof. intros H1 H2 l H. auto. Qed.

Lemma stamp_facts r m : let '(r1, m1) := stamp r m in
  label m1 = label m /\ (exists k, mseq m1 = Some k /\ (k <= seqn r1)%nat \/ (mseq m = Some k /\ mseq m1 = Some k)) /\
  st r1 = st r /\ buf r1 = buf r /\ eid r1 = eid r /\ out r1 = out r /\ crashed r1 = crashed r /\ tk r1 = tk r
  /\ (seqn r <= seqn r1)%nat.
Proof.
  unfold stamp. destruct (mseq m) as [k|] eqn:E; cbn.
  - repeat split; try reflexivity; try lia. exists k. right. auto.
  - repeat split; try reflexivity; try lia. exists (S (seqn r)). left. split; [reflexivity|lia].
Qed.

Definition stamped (n : nat) (m : msg) : Prop := exists k, mseq m = Some k /\ (k <= n)%nat.
Lemma stamped_mono n n' m : (n <= n')%nat -> stamped n m -> stamped n' m.
Proof. intros H [k [A B]]. exists k. split; [exact A|lia]. Qed.

(* ---------- buffer ---------- *)
Lemma buffer_facts r m : Forall (stamped (seqn r)) (buf r) -> (forall k, mseq m = Some k -> (k <= seqn r)%nat) ->
  let r' := buffer r m in
  st r' = st r /\ eid r' = eid r /\ crashed r' = crashed r /\ tk r' = tk r /\ out r' = out r /\
  Forall (stamped (seqn r')) (buf r') /\ lab_in (label m) r' /\ keeps r r' /\ (seqn r <= seqn r')%nat /\ buf r' <> [].
Proof.
  intros F Hm. unfold buffer. pose proof (stamp_facts r m) as S. destruct (stamp r m) as [r1 m1].
  destruct S as [L [[k K] [S1 [S2 [S3 [S4 [S5 [S6 S7]]]]]]]]. cbn [st eid crashed tk out buf seqn].
  repeat split; try assumption.
  - rewrite S2. apply Forall_app. split.
    + eapply Forall_impl; [|exact F]. intros a. now apply stamped_mono.
    + constructor; [|constructor]. destruct K as [[K1 K2]|[K1 K2]]; exists k; split; try assumption.
      specialize (Hm k K1). lia.
  - right. cbn [buf]. rewrite map_app, in_app_iff. right. left. exact L.
  - intros l [H|H]; [left; cbn [out]; now rewrite S4|right; cbn [buf]; rewrite S2, map_app, in_app_iff; now left].
  - cbn [buf]. intros H. apply app_eq_nil in H as [_ H]. discriminate.
Qed.

Lemma set_failed_facts r :
  st (set_failed r) = Failed /\ buf (set_failed r) = buf r /\ seqn (set_failed r) = seqn r /\ out (set_failed r) = out r
  /\ crashed (set_failed r) = crashed r.
Proof. repeat split. Qed.

(* ---------- send / post ---------- *)
Lemma send_spec r m rs : eid r = true -> (forall k, mseq m = Some k -> (k <= seqn r)%nat) ->
  forall r1 m1 failed rs', send r m rs = (r1, m1, failed, rs') ->
  st r1 = st r /\ buf r1 = buf r /\ eid r1 = true /\ crashed r1 = crashed r /\ (seqn r <= seqn r1)%nat /\
  label m1 = label m /\ stamped (seqn r1) m1 /\ (forall x, In x (map fst (out r)) -> In x (map fst (out r1))) /\
  (failed = false -> In (label m) (map fst (out r1))) /\ tk r1 = tk r.
Proof.
  intros He Hm r1 m1 failed rs' H. unfold send in H. rewrite He in H. cbn [negb] in H.
  pose proof (stamp_facts r m) as S. destruct (stamp r m) as [r0 m0].
  destruct S as [L [[k K] [S1 [S2 [S3 [S4 [S5 [S6 S7]]]]]]]].
  assert (St : stamped (seqn r0) m0).
  { destruct K as [[K1 K2]|[K1 K2]]; exists k; split; try assumption. specialize (Hm k K1). lia. }
  destruct (next rs) as [x rs0].
  assert (E3 : eid r0 = true) by congruence.
  destruct x; inversion H; subst; clear H; cbn [st buf eid crashed seqn out];
    (split; [exact S1|split; [exact S2|split; [exact E3|split; [exact S5|split; [exact S7|split; [exact L|split; [exact St|split; [|split; [|exact S6]]]]]]]]]).
  - intros y Hy. rewrite S4, map_app, in_app_iff. now left.
  - intros _. rewrite map_app, in_app_iff. right. left. exact L.
  - intros y Hy. now rewrite S4.
  - discriminate.
  - intros y Hy. rewrite S4, map_app, in_app_iff. now left.
  - discriminate.
Qed.

Record post_ok (r r' : R) : Prop := {
  p_inv : Inv r';
  p_keeps : keeps r r';
  p_seq : (seqn r <= seqn r')%nat;
  p_state : st r' = st r \/ (st r' = Failed /\ buf r' <> []);
  p_tk : st r' = st r -> tk r' = tk r }.

Lemma post_spec r m rs : Inv r -> (forall k, mseq m = Some k -> (k <= seqn r)%nat) ->
  post_ok r (fst (post r m rs)) /\ (up (st r) = true -> lab_in (label m) (fst (post r m rs))).
Proof.
  intros [A A0 B C D] Hm.
  assert (Same : post_ok r r) by (split; [split; assumption|apply keeps_refl|lia|now left|reflexivity]).
  assert (Buffering : st r = Failed \/ st r = Disconnected \/ st r = Reconnecting ->
                      post_ok r (buffer r m) /\ lab_in (label m) (buffer r m)).
  { intros Hs. pose proof (buffer_facts r m D Hm) as BF. cbv zeta in BF.
    destruct BF as [B1 [B2 [B3 [B4 [B5 [B6 [B7 [B8 [B9 B10]]]]]]]]].
    split; [|exact B7]. split; [split| | | |].
    - rewrite B1, B2. exact A.
    - rewrite B1. intros H. destruct Hs as [Hs|[Hs|Hs]]; congruence.
    - rewrite B1. intros H. destruct Hs as [Hs|[Hs|Hs]]; rewrite Hs in H; discriminate.
    - now rewrite B3.
    - exact B6.
    - exact B8.
    - exact B9.
    - left. exact B1.
    - intros _. exact B4. }
  assert (Sending : sending (st r) = true ->
            post_ok r (fst (let '(r1, m1, failed, rs') := send r m rs in
                            if failed then (buffer (set_failed r1) m1, rs') else (r1, rs')))
            /\ lab_in (label m) (fst (let '(r1, m1, failed, rs') := send r m rs in
                                       if failed then (buffer (set_failed r1) m1, rs') else (r1, rs')))).
  { intros Hs.
    assert (Hid : has_id (st r) = true) by (destruct (st r); try discriminate Hs; reflexivity).
    pose proof (send_spec r m rs (A Hid) Hm) as SS.
    destruct (send r m rs) as [[[r1 m1] failed] rs'].
    destruct (SS r1 m1 failed rs' eq_refl) as [T1 [T2 [T3 [T4 [T5 [T6 [T7 [T8 [T9 T10]]]]]]]]]. clear SS.
    assert (F1 : Forall (stamped (seqn r1)) (buf r1)).
    { rewrite T2. eapply Forall_impl; [|exact D]. intros a. now apply stamped_mono. }
    destruct failed; cbn [fst].
    - assert (Hm1 : forall k, mseq m1 = Some k -> (k <= seqn (set_failed r1))%nat).
      { intros k Hk. destruct T7 as [k0 [K1 K2]]. rewrite K1 in Hk. inversion Hk; subst. exact K2. }
      pose proof (buffer_facts (set_failed r1) m1 F1 Hm1) as BF. cbv zeta in BF.
      destruct BF as [B1 [B2 [B3 [B4 [B5 [B6 [B7 [B8 [B9 B10]]]]]]]]].
      split; [split; [split| | | |]|].
      + rewrite B1. discriminate.
      + rewrite B1. discriminate.
      + rewrite B1. discriminate.
      + rewrite B3. cbn [set_failed crashed]. now rewrite T4.
      + exact B6.
      + intros l [H|H]; apply B8; [left; cbn [set_failed out]; now apply T8|right; cbn [set_failed buf]; now rewrite T2].
      + cbn [set_failed seqn] in B9. lia.
      + right. split; [now rewrite B1|exact B10].
      + rewrite B1. cbn [set_failed st]. intros H. rewrite <- H in Hs. discriminate.
      + rewrite <- T6. exact B7.
    - split; [split; [split| | | |]|].
      + intros _. exact T3.
      + rewrite T1. intros H. rewrite H in Hs. discriminate.
      + intros H. rewrite T2. apply B. now rewrite <- T1.
      + now rewrite T4.
      + exact F1.
      + intros l [H|H]; [left; now apply T8|right; now rewrite T2].
      + exact T5.
      + now left.
      + intros _. exact T10.
      + left. now apply T9. }
  unfold post. destruct (st r) eqn:Es.
  - split; [exact Same|discriminate].
  - destruct (Sending eq_refl) as [P L]. split; [exact P|intros _; exact L].
  - destruct (Buffering (or_introl eq_refl)) as [P L]. split; [exact P|intros _; exact L].
  - destruct (Buffering (or_intror (or_introl eq_refl))) as [P L]. split; [exact P|intros _; exact L].
  - destruct (Buffering (or_intror (or_intror eq_refl))) as [P L]. split; [exact P|intros _; exact L].
  - destruct (Sending eq_refl) as [P L]. split; [exact P|intros _; exact L].
  - destruct (Sending eq_refl) as [P L]. split; [exact P|intros _; exact L].
  - split; [exact Same|discriminate].
Qed.

(* ---------- a sequence of posts (the batch) ---------- *)
Record seq_ok (r r' : R) : Prop := { q_inv : Inv r'; q_keeps : keeps r r'; q_seq : (seqn r <= seqn r')%nat }.
Lemma seq_ok_of_post r r' : post_ok r r' -> seq_ok r r'.
Proof. intros [A B C D F]. split; assumption. Qed.
Lemma seq_ok_trans a b c : seq_ok a b -> seq_ok b c -> seq_ok a c.
Proof. intros [A1 A2 A3] [B1 B2 B3]. split; [exact B1|eapply keeps_trans; eauto|lia]. Qed.

Lemma post_all_spec ms : forall r rs, Inv r -> up (st r) = true -> Forall (stamped (seqn r)) ms ->
  seq_ok r (fst (post_all r ms rs)) /\ (forall m, In m ms -> lab_in (label m) (fst (post_all r ms rs)))
  /\ up (st (fst (post_all r ms rs))) = true.
Proof.
  induction ms as [|m ms IH]; intros r rs I U F; cbn [post_all].
  - cbn [fst]. split; [split; [exact I|apply keeps_refl|lia]|split; [intros m []|exact U]].
  - inversion F as [|? ? Fm Fms]; subst.
    assert (Hm : forall k, mseq m = Some k -> (k <= seqn r)%nat).
    { intros k Hk. destruct Fm as [k0 [K1 K2]]. rewrite K1 in Hk. inversion Hk; subst. exact K2. }
    destruct (post_spec r m rs I Hm) as [P L]. destruct (post r m rs) as [r1 rs1]. cbn [fst] in P, L.
    assert (U1 : up (st r1) = true).
    { destruct (p_state _ _ P) as [H|[H _]]; rewrite H; [exact U|reflexivity]. }
    assert (F1 : Forall (stamped (seqn r1)) ms).
    { eapply Forall_impl; [|exact Fms]. intros a. apply stamped_mono. exact (p_seq _ _ P). }
    destruct (IH r1 rs1 (p_inv _ _ P) U1 F1) as [Q [LL UU]].
    split; [eapply seq_ok_trans; [apply seq_ok_of_post; exact P|exact Q]|split; [|exact UU]].
    intros m0 [<-|Hin]; [apply (q_keeps _ _ Q); now apply L|now apply LL].
Qed.

(* ---------- _set_state and the tick ---------- *)
Lemma Inv_with_state r s : Inv r -> s <> Started -> (has_id s = true -> eid r = true) -> (steady s = true -> buf r = []) ->
  Inv (with_state r s).
Proof.
  intros [A A0 B C D] Hs He Hb. split; cbn [with_state st buf eid crashed seqn]; try assumption. intros H. contradiction.
Qed.
Lemma keeps_with_state r s : keeps r (with_state r s). Proof. intros l H. exact H. Qed.

Lemma Inv_set_failed r : Inv r -> Inv (set_failed r).
Proof. intros [A A0 B C D]. split; cbn [set_failed st buf eid crashed seqn]; try assumption; discriminate. Qed.

Lemma Inv_start_steady r : Inv r -> st r <> Started -> Inv (start_steady r).
Proof.
  intros [A A0 B C D] Hs. unfold start_steady. destruct (tk r); split; cbn [st buf eid crashed seqn tk]; try assumption;
    intros H; contradiction.
Qed.

Lemma set_state_spec r s rs : Inv r -> s <> Started -> s <> Stopped ->
  (has_id s = true -> eid r = true) -> (steady s = true -> buf r = []) ->
  seq_ok r (fst (set_state r s rs)).
Proof.
  intros I Hs Hs' He Hb.
  assert (W : Inv (with_state r s)) by now apply Inv_with_state.
  destruct s; try contradiction; cbn [set_state fst].
  - (* Connected *)
    destruct (post_spec (with_state r Connected) (fresh (-1) KOther) rs W) as [P _]; [intros k Hk; discriminate|].
    destruct (post (with_state r Connected) (fresh (-1) KOther) rs) as [r1 rs1]. cbn [fst] in *.
    split.
    + apply Inv_start_steady; [exact (p_inv _ _ P)|]. destruct (p_state _ _ P) as [H|[H _]]; rewrite H; discriminate.
    + intros l Hl. apply (p_keeps _ _ P) in Hl. unfold start_steady. destruct (tk r1); exact Hl.
    + pose proof (p_seq _ _ P) as Q. unfold start_steady. destruct (tk r1); exact Q.
  - (* Failed *) split; [now apply Inv_set_failed|intros l H; exact H|cbn; lia].
  - split; [exact W|apply keeps_with_state|cbn; lia].
  - split; [exact W|apply keeps_with_state|cbn; lia].
  - (* CatchingUp *)
    destruct (post_spec (with_state r CatchingUp) (fresh (-1) KOther) rs W) as [P _]; [intros k Hk; discriminate|].
    apply seq_ok_of_post in P. destruct P as [P1 P2 P3]. split; assumption.
  - (* Reconnected *) split.
    + apply Inv_start_steady; [exact W|discriminate].
    + intros l Hl. unfold start_steady. destruct (tk (with_state r Reconnected)); exact Hl.
    + unfold start_steady. destruct (tk (with_state r Reconnected)); cbn; lia.
Qed.

Lemma connect_spec r rs : Inv r -> st r = Started \/ st r = Disconnected -> seq_ok r (fst (connect r rs)).
Proof.
  intros I Hst. unfold connect. destruct (next rs) as [x rs'].
  assert (Fail : seq_ok r (fst (set_state r Failed rs'))) by (apply set_state_spec; try discriminate; exact I).
  destruct x; try exact Fail.
  set (r1 := {| st := st r; buf := buf r; seqn := seqn r; tk := tk r; eid := true; out := out r; crashed := crashed r |}).
  assert (I1 : Inv r1).
  { destruct I as [A A0 B C D]. split; cbn [r1 st buf eid crashed seqn tk]; try assumption. intros _. reflexivity. }
  assert (K1 : keeps r r1) by (intros l H; exact H).
  destruct Hst as [Hst|Hst]; rewrite Hst.
  - assert (Q : seq_ok r1 (fst (set_state r1 Connected rs'))).
    { apply set_state_spec; try discriminate; try exact I1; [reflexivity|]. intros _. exact (proj1 (i_started r I Hst)). }
    destruct Q as [Q1 Q2 Q3]. split; [exact Q1|exact (keeps_trans _ _ _ K1 Q2)|exact Q3].
  - assert (Q : seq_ok r1 (fst (set_state r1 Reconnecting rs'))).
    { apply set_state_spec; try discriminate; try exact I1. reflexivity. }
    destruct Q as [Q1 Q2 Q3]. split; [exact Q1|exact (keeps_trans _ _ _ K1 Q2)|exact Q3].
Qed.

Lemma batch_spec r rs : Inv r -> st r = CatchingUp -> seq_ok r (fst (batch r rs)).
Proof.
  intros I Hst. unfold batch.
  destruct (post_spec r (fresh (-2) KOther) rs I) as [P _]; [intros k Hk; discriminate|].
  destruct (post r (fresh (-2) KOther) rs) as [r1 rs1]. cbn [fst] in P.
  pose proof (p_inv _ _ P) as I1.
  destruct (buf r1) as [|m ms] eqn:Eb.
  - (* all caught up *)
    assert (S1 : st r1 = CatchingUp).
    { destruct (p_state _ _ P) as [H|[_ H]]; [now rewrite H|contradiction]. }
    assert (Q : seq_ok r1 (fst (set_state r1 Reconnected rs1))).
    { apply set_state_spec; try discriminate; try exact I1; [|intros _; exact Eb]. intros _. apply (i_eid r1 I1). now rewrite S1. }
    eapply seq_ok_trans; [apply seq_ok_of_post; exact P|exact Q].
  - set (r2 := {| st := st r1; buf := []; seqn := seqn r1; tk := tk r1; eid := eid r1; out := out r1; crashed := crashed r1 |}).
    assert (I2 : Inv r2).
    { destruct I1 as [A A0 B C D]. split; cbn [r2 st buf eid crashed seqn tk]; try assumption; [|intros _; reflexivity|constructor].
      intros H. split; [reflexivity|]. now apply A0. }
    assert (U2 : up (st r2) = true).
    { cbn [r2 st]. destruct (p_state _ _ P) as [H|[H _]]; rewrite H; [now rewrite Hst|reflexivity]. }
    assert (F2 : Forall (stamped (seqn r2)) (m :: ms)) by (cbn [r2 seqn]; rewrite <- Eb; exact (i_seq r1 I1)).
    destruct (post_all_spec (m :: ms) r2 rs1 I2 U2 F2) as [Q [LL _]].
    destruct Q as [Q1 Q2 Q3]. split; [exact Q1| |pose proof (p_seq _ _ P); cbn [r2 seqn] in Q3; lia].
    intros l Hl. apply (p_keeps _ _ P) in Hl. destruct Hl as [H|H].
    + apply Q2. left. exact H.
    + rewrite Eb in H. apply in_map_iff in H as [m0 [<- Hin]]. now apply LL.
Qed.

Lemma tick_spec r rs : Inv r -> seq_ok r (fst (tick r rs)).
Proof.
  intros I. unfold tick.
  assert (Same : seq_ok r r) by (split; [exact I|apply keeps_refl|lia]).
  destruct (st r) eqn:Es; try exact Same.
  - apply connect_spec; [exact I|now left].
  - apply set_state_spec; try discriminate; exact I.
  - apply connect_spec; [exact I|now right].
  - apply set_state_spec; try discriminate; try exact I. intros _. apply (i_eid r I). now rewrite Es.
  - now apply batch_spec.
Qed.

(* ---------- the buffer loop is never alive in a steady state ---------- *)
Definition Inv2 (r : R) : Prop := tk r = TBuf -> steady (st r) = false.

Lemma Inv2_post r m rs : Inv r -> (forall k, mseq m = Some k -> (k <= seqn r)%nat) -> Inv2 r -> Inv2 (fst (post r m rs)).
Proof.
  intros I Hm J. destruct (post_spec r m rs I Hm) as [P _]. unfold Inv2 in *.
  destruct (p_state _ _ P) as [H|[H _]]; [|intros _; now rewrite H].
  rewrite H, (p_tk _ _ P H). exact J.
Qed.

Lemma Inv2_post_all ms : forall r rs, Inv r -> up (st r) = true -> Forall (stamped (seqn r)) ms -> Inv2 r ->
  Inv2 (fst (post_all r ms rs)).
Proof.
  induction ms as [|m ms IH]; intros r rs I U F J; cbn [post_all]; [exact J|].
  inversion F as [|? ? Fm Fms]; subst.
  assert (Hm : forall k, mseq m = Some k -> (k <= seqn r)%nat).
  { intros k Hk. destruct Fm as [k0 [K1 K2]]. rewrite K1 in Hk. inversion Hk; subst. exact K2. }
  pose proof (Inv2_post r m rs I Hm J) as J1.
  destruct (post_spec r m rs I Hm) as [P _]. destruct (post r m rs) as [r1 rs1]. cbn [fst] in *.
  apply IH; [exact (p_inv _ _ P)| | |exact J1].
  - destruct (p_state _ _ P) as [H|[H _]]; rewrite H; [exact U|reflexivity].
  - eapply Forall_impl; [|exact Fms]. intros a. apply stamped_mono. exact (p_seq _ _ P).
Qed.

Lemma Inv2_with_state r s : Inv2 (with_state r s).
Proof. unfold Inv2. cbn [with_state tk st]. destruct (tk r), s; cbn; intros H; try discriminate; reflexivity. Qed.

Lemma Inv2_start_steady r : Inv2 r -> Inv2 (start_steady r).
Proof. unfold Inv2, start_steady. destruct (tk r) eqn:E; cbn [tk st]; try rewrite E; intros J H; try discriminate; now apply J. Qed.

Lemma Inv2_set_state r s rs : Inv r -> s <> Started -> s <> Stopped ->
  (has_id s = true -> eid r = true) -> (steady s = true -> buf r = []) -> Inv2 (fst (set_state r s rs)).
Proof.
  intros I Hs Hs' He Hb.
  assert (W : Inv (with_state r s)) by now apply Inv_with_state.
  destruct s; try contradiction; cbn [set_state fst]; try apply Inv2_with_state.
  - pose proof (Inv2_post (with_state r Connected) (fresh (-1) KOther) rs W) as J.
    destruct (post (with_state r Connected) (fresh (-1) KOther) rs) as [r1 rs1]. cbn [fst] in *.
    apply Inv2_start_steady. apply J; [intros k Hk; discriminate|apply Inv2_with_state].
  - unfold Inv2. cbn [set_failed st]. reflexivity.
  - apply (Inv2_post (with_state r CatchingUp) (fresh (-1) KOther) rs W); [intros k Hk; discriminate|apply Inv2_with_state].
  - apply Inv2_start_steady. apply Inv2_with_state.
Qed.

Lemma Inv2_tick r rs : Inv r -> Inv2 r -> Inv2 (fst (tick r rs)).
Proof.
  intros I J. unfold tick. destruct (st r) eqn:Es; try exact J.
  - (* Started: connect *) unfold connect. destruct (next rs) as [x rs'].
    destruct x; try (apply Inv2_set_state; try discriminate; exact I).
    rewrite Es. apply Inv2_set_state; try discriminate; [|intros _; reflexivity|intros _; exact (proj1 (i_started r I Es))].
    destruct I as [A A0 B C D]. split; cbn [st buf eid crashed seqn tk]; try assumption; try (intros _; reflexivity);
      try (intros _; now apply A0); try discriminate.
  - apply Inv2_set_state; try discriminate; exact I.
  - unfold connect. destruct (next rs) as [x rs'].
    destruct x; try (apply Inv2_set_state; try discriminate; exact I).
    rewrite Es. apply Inv2_set_state; try discriminate; [|intros _; reflexivity].
    destruct I as [A A0 B C D]. split; cbn [st buf eid crashed seqn tk]; try assumption; try (intros _; reflexivity);
      try (intros HH; rewrite Es in HH; discriminate); try discriminate.
  - apply Inv2_set_state; try discriminate; try exact I. intros _. apply (i_eid r I). now rewrite Es.
  - (* batch *) unfold batch.
    pose proof (Inv2_post r (fresh (-2) KOther) rs I) as J1.
    destruct (post_spec r (fresh (-2) KOther) rs I) as [P _]; [intros k Hk; discriminate|].
    destruct (post r (fresh (-2) KOther) rs) as [r1 rs1]. cbn [fst] in *.
    specialize (J1 ltac:(intros k Hk; discriminate) J). pose proof (p_inv _ _ P) as I1.
    destruct (buf r1) as [|m ms] eqn:Eb.
    + assert (S1 : st r1 = CatchingUp) by (destruct (p_state _ _ P) as [H|[_ H]]; [now rewrite H|contradiction]).
      apply Inv2_set_state; try discriminate; try exact I1; [|intros _; exact Eb]. intros _. apply (i_eid r1 I1). now rewrite S1.
    + set (r2 := {| st := st r1; buf := []; seqn := seqn r1; tk := tk r1; eid := eid r1; out := out r1; crashed := crashed r1 |}).
      apply Inv2_post_all.
      * unfold r2. destruct I1 as [A A0 B C D]. split; cbn [st buf eid crashed seqn tk]; try assumption; [|intros _; reflexivity|constructor].
        intros H. split; [reflexivity|]. now apply A0.
      * unfold r2. cbn [st]. destruct (p_state _ _ P) as [H|[H _]]; rewrite H; [now rewrite Es|reflexivity].
      * unfold r2. cbn [seqn]. rewrite <- Eb. exact (i_seq r1 I1).
      * exact J1.
Qed.

(* ---------- operations ---------- *)
Lemma Inv_clear r : Inv r -> Inv (clear_out r).
Proof. intros [A A0 B C D]. split; cbn [clear_out st buf eid crashed seqn tk]; try assumption. reflexivity. Qed.

Definition Good (r : R) : Prop := Inv r /\ Inv2 r.

Theorem Good_step r o : Good r -> Good (step r o).
Proof.
  intros [I J]. pose proof (Inv_clear r I) as I0. assert (J0 : Inv2 (clear_out r)) by exact J.
  unfold step. destruct o as [l run k rs|l run k|rs].
  - destruct (post_spec (clear_out r) {| label := l; mseq := None; mrun := run; mkd := k |} rs I0) as [P _]; [intros kk H; discriminate|].
    split; [exact (p_inv _ _ P)|]. apply Inv2_post; [exact I0|intros kk H; discriminate|exact J0].
  - destruct (tk (clear_out r)) eqn:Et; try (split; [exact I0|exact J0]).
    pose proof (buffer_facts (clear_out r) {| label := l; mseq := None; mrun := run; mkd := k |} (i_seq _ I0)) as BF.
    cbv zeta in BF. destruct BF as [B1 [B2 [B3 [B4 [B5 [B6 [B7 [B8 [B9 B10]]]]]]]]]; [intros kk H; discriminate|].
    pose proof (J0 Et) as NS.
    split.
    + destruct I0 as [A A0 B C D]. split.
      * rewrite B1, B2. exact A.
      * rewrite B1. intros H. destruct (A0 H) as [_ T]. congruence.
      * rewrite B1, NS. discriminate.
      * now rewrite B3.
      * exact B6.
    + unfold Inv2. rewrite B1, B4. exact J0.
  - split; [exact (q_inv _ _ (tick_spec (clear_out r) rs I0))|now apply Inv2_tick].
Qed.

Lemma Good_init : Good init.
Proof.
  split; [split; cbn; try discriminate; try reflexivity; auto|unfold Inv2; cbn; discriminate].
Qed.

Theorem Good_reachable ops : Good (fold_left step ops init).
Proof.
  generalize Good_init. generalize init. induction ops as [|o ops IH]; intros r G; cbn [fold_left]; [exact G|].
  apply IH. now apply Good_step.
Qed.

(* no loss, step by step: a message accepted by an operation is transmitted or buffered when the operation ends, and a
   buffered message stays buffered until an operation transmits it *)
Theorem accepted_not_lost r l run k rs : Good r -> up (st r) = true ->
  lab_in l (step r (OPost l run k rs)).
Proof.
  intros [I _] U. pose proof (Inv_clear r I) as I0. unfold step.
  destruct (post_spec (clear_out r) {| label := l; mseq := None; mrun := run; mkd := k |} rs I0) as [_ L]; [intros kk H; discriminate|].
  apply L. exact U.
Qed.

Theorem buffered_by_loop_not_lost r l run k : Good r -> tk r = TBuf -> lab_in l (step r (OBuf l run k)).
Proof.
  intros [I _] T. pose proof (Inv_clear r I) as I0. unfold step. cbn [clear_out tk]. rewrite T.
  pose proof (buffer_facts (clear_out r) {| label := l; mseq := None; mrun := run; mkd := k |} (i_seq _ I0)) as BF.
  cbv zeta in BF. destruct BF as [_ [_ [_ [_ [_ [_ [B7 _]]]]]]]; [intros kk H; discriminate|exact B7].
Qed.

Theorem buffered_stays_or_goes_out r o m : Good r -> In m (buf r) -> lab_in (label m) (step r o).
Proof.
  intros [I _] Hin. pose proof (Inv_clear r I) as I0.
  assert (L0 : lab_in (label m) (clear_out r)) by (right; cbn [clear_out buf]; now apply in_map).
  unfold step. destruct o as [l run k rs|l run k|rs].
  - destruct (post_spec (clear_out r) {| label := l; mseq := None; mrun := run; mkd := k |} rs I0) as [P _]; [intros kk H; discriminate|].
    now apply (p_keeps _ _ P).
  - destruct (tk (clear_out r)); try exact L0.
    pose proof (buffer_facts (clear_out r) {| label := l; mseq := None; mrun := run; mkd := k |} (i_seq _ I0)) as BF.
    cbv zeta in BF. destruct BF as [_ [_ [_ [_ [_ [_ [_ [B8 _]]]]]]]]; [intros kk H; discriminate|now apply B8].
  - now apply (q_keeps _ _ (tick_spec (clear_out r) rs I0)).
Qed.
