(* Proofs about the tag reporting model: completeness of reports (C36) and time stamps (C16). *)
From Coq Require Import ZArith List Bool Arith Lia.
From OP Require Import lib.Obs model.Tags.
Import ListNotations.
Open Scope Z_scope.

(* ---------- lists ---------- *)
Lemma upd_length {A} (l : list A) i x : length (upd l i x) = length l.
Proof. revert i; induction l as [|y l IH]; intros [|i]; cbn; auto. Qed.

Lemma nth_upd_same {A} (l : list A) i x d : (i < length l)%nat -> nth i (upd l i x) d = x.
Proof. revert i; induction l as [|y l IH]; intros [|i] H; cbn in *; try lia; auto. apply IH. lia. Qed.

Lemma nth_upd_other {A} (l : list A) i j x d : i <> j -> nth j (upd l i x) d = nth j l d.
Proof. revert i j; induction l as [|y l IH]; intros [|i] [|j] H; cbn; auto; try congruence. Qed.

Lemma upd_out {A} (l : list A) i x : (length l <= i)%nat -> upd l i x = l.
Proof. revert i; induction l as [|y l IH]; intros [|i] H; cbn in *; auto; try lia. f_equal. apply IH. lia. Qed.

Lemma mem_In i l : mem i l = true <-> In i l.
Proof.
  unfold mem. rewrite existsb_exists. split.
  - intros [x [H E]]. apply Nat.eqb_eq in E. now subst.
  - intros H. exists i. split; [exact H|apply Nat.eqb_refl].
Qed.

Lemma mem_add i j l : mem i (add j l) = mem i l || Nat.eqb i j.
Proof.
  unfold add. destruct (mem j l) eqn:E.
  - destruct (Nat.eqb i j) eqn:Eij; [|now rewrite orb_false_r].
    apply Nat.eqb_eq in Eij. subst. now rewrite E.
  - unfold mem. rewrite existsb_app. cbn. now rewrite orb_false_r.
Qed.

Lemma mem_app i a b : mem i (a ++ b) = mem i a || mem i b.
Proof. unfold mem. apply existsb_app. Qed.

Lemma In_dedupe i l : forall seen, In i (dedupe l seen) <-> In i l /\ ~ In i seen.
Proof.
  induction l as [|j l IH]; intros seen; cbn; [tauto|].
  destruct (mem j seen) eqn:E.
  - rewrite IH. apply mem_In in E. split; [tauto|]. intros [[->|H] N]; tauto.
  - cbn. rewrite IH. cbn. assert (~ In j seen) by (intros H; apply mem_In in H; congruence).
    split.
    + intros [->|[H1 H2]]; tauto.
    + intros [[->|H1] H2]; [tauto|]. destruct (Nat.eq_dec j i); [tauto|]. right. tauto.
Qed.

Lemma NoDup_dedupe l : forall seen, NoDup (dedupe l seen).
Proof.
  induction l as [|j l IH]; intros seen; cbn; [constructor|].
  destruct (mem j seen); [apply IH|]. constructor; [|apply IH].
  rewrite In_dedupe. cbn. tauto.
Qed.

Lemma In_insert i j l : In i (insert j l) <-> i = j \/ In i l.
Proof.
  induction l as [|k l IH]; cbn; [intuition|].
  destruct (Nat.leb j k); cbn; [intuition|]. rewrite IH. intuition.
Qed.

Lemma In_sort i l : In i (sort l) <-> In i l.
Proof. induction l as [|j l IH]; cbn; [tauto|]. rewrite In_insert, IH. intuition. Qed.

Lemma NoDup_insert j l : NoDup l -> ~ In j l -> NoDup (insert j l).
Proof.
  induction l as [|k l IH]; intros Hn Hj; cbn; [constructor; [tauto|constructor]|].
  destruct (Nat.leb j k); [constructor; assumption|].
  inversion Hn; subst. constructor.
  - rewrite In_insert. cbn in Hj. intuition.
  - apply IH; [assumption|]. cbn in Hj. tauto.
Qed.

Lemma NoDup_sort l : NoDup l -> NoDup (sort l).
Proof.
  induction l as [|j l IH]; intros H; cbn; [constructor|]. inversion H; subst.
  apply NoDup_insert; [auto|]. now rewrite In_sort.
Qed.

(* ---------- C36: completeness of reports ---------- *)
Definition disciplined (o : op) : bool :=
  match o with
  | ORawVal _ _ | ORawSim _ _ | ORawFlag _ _ => false
  | OSim _ v _ => negb (v =? 0)            (* a simulated value is never None *)
  | _ => true
  end.

Definition n_tags (s : st) := length (tags s).

Record Inv (s : st) : Prop := {
  inv_len : length (rep s) = length (tags s);
  inv_pending : forall i, (i < n_tags s)%nat -> visible (get s i) <> nth i (rep s) 0 ->
                mem i (changes s) || mem i (queue s) = true;
  inv_sim : forall i, t_simd (get s i) = false -> t_sim (get s i) = 0 }.

Definition wf_tags (ts : list tag) : Prop := forall t, In t ts -> t_simd t = false -> t_sim t = 0.

Lemma nth_map_visible ts i : (i < length ts)%nat -> nth i (map visible ts) 0 = visible (nth i ts dflt).
Proof. intros H. rewrite (nth_indep _ 0 (visible dflt)) by now rewrite map_length. apply map_nth. Qed.

Lemma Inv_init ts : wf_tags ts -> Inv (init ts).
Proof.
  intros W. split; cbn.
  - apply map_length.
  - intros i Hi H. exfalso. apply H. unfold get. cbn. now rewrite nth_map_visible.
  - intros i. unfold get. cbn. destruct (Nat.lt_ge_cases i (length ts)) as [H|H].
    + apply W. now apply nth_In.
    + rewrite nth_overflow by lia. reflexivity.
Qed.

Lemma get_set_same s i t : (i < n_tags s)%nat -> get (set_tag s i t) i = t.
Proof. intros H. unfold get, set_tag. cbn. now apply nth_upd_same. Qed.
Lemma get_set_other s i j t : i <> j -> get (set_tag s i t) j = get s j.
Proof. intros H. unfold get, set_tag. cbn. now apply nth_upd_other. Qed.
Lemma get_set_out s i t : (n_tags s <= i)%nat -> set_tag s i t = s.
Proof. intros H. unfold set_tag. rewrite upd_out by exact H. now destruct s. Qed.

(* a write that notifies keeps the invariant whatever it wrote, provided simulated-off implies sim=None *)
Lemma Inv_write_notify s i t :
  Inv s -> (t_simd t = false -> t_sim t = 0) -> Inv (notify (set_tag s i t) i).
Proof.
  intros [L P S] Ht. destruct (Nat.lt_ge_cases i (n_tags s)) as [Hi|Hi].
  - split; cbn [notify set_tag tags changes queue rep n_tags].
    + now rewrite upd_length.
    + unfold n_tags. cbn [notify set_tag tags]. rewrite upd_length. intros j Hj Hne. rewrite mem_add.
      destruct (Nat.eq_dec i j) as [->|Hij]; [now rewrite Nat.eqb_refl, orb_true_r|].
      change (get (notify (set_tag s i t) i) j) with (get (set_tag s i t) j) in Hne.
      rewrite get_set_other in Hne by exact Hij.
      specialize (P j Hj Hne). apply orb_true_iff in P as [P|P]; rewrite P; cbn; now rewrite ?orb_true_r.
    + intros j. change (get (notify (set_tag s i t) i) j) with (get (set_tag s i t) j).
      destruct (Nat.eq_dec i j) as [->|Hij]; [now rewrite get_set_same|]. rewrite get_set_other by exact Hij. apply S.
  - rewrite get_set_out by exact Hi. split; cbn [notify set_tag tags changes queue rep n_tags]; [exact L| |exact S].
    intros j Hj Hne. rewrite mem_add. specialize (P j Hj Hne).
    apply orb_true_iff in P as [P|P]; rewrite P; cbn; now rewrite ?orb_true_r.
Qed.

(* a write that leaves the visible value unchanged needs no notification *)
Lemma Inv_write_silent s i t :
  Inv s -> (t_simd t = false -> t_sim t = 0) -> visible t = visible (get s i) -> Inv (set_tag s i t).
Proof.
  intros [L P S] Ht Hv. destruct (Nat.lt_ge_cases i (n_tags s)) as [Hi|Hi].
  - split; cbn [set_tag tags changes queue rep].
    + now rewrite upd_length.
    + unfold n_tags. cbn [set_tag tags]. rewrite upd_length. intros j Hj Hne.
      destruct (Nat.eq_dec i j) as [->|Hij].
      * rewrite get_set_same in Hne by exact Hi. rewrite Hv in Hne. exact (P j Hj Hne).
      * rewrite get_set_other in Hne by exact Hij. exact (P j Hj Hne).
    + intros j. destruct (Nat.eq_dec i j) as [->|Hij]; [now rewrite get_set_same|].
      rewrite get_set_other by exact Hij. apply S.
  - rewrite get_set_out by exact Hi. now split.
Qed.

Lemma nth_rep_update (s : st) (q : list nat) j :
  (j < length (rep s))%nat ->
  nth j (map (fun p => if mem (fst p) q then visible (get s (fst p)) else snd p)
             (combine (seq 0 (length (rep s))) (rep s))) 0
  = if mem j q then visible (get s j) else nth j (rep s) 0.
Proof.
  intros Hj.
  set (f := fun p : nat * Z => if mem (fst p) q then visible (get s (fst p)) else snd p).
  rewrite (nth_indep _ 0 (f (0%nat, 0))) by (rewrite map_length, combine_length, seq_length; lia).
  rewrite map_nth. rewrite combine_nth by now rewrite seq_length.
  rewrite seq_nth by exact Hj. cbn. reflexivity.
Qed.

Lemma step_Inv s o : disciplined o = true -> Inv s -> Inv (step s o).
Proof.
  intros D I. destruct o; cbn [disciplined] in D; try discriminate; cbn [step].
  - (* OTick *) destruct I as [L P S]. split; assumption.
  - (* OSet *) destruct (v =? t_val (get s i)); [exact I|]. apply Inv_write_notify; [exact I|]. cbn. apply I.
  - (* OSim *) apply negb_true_iff in D. destruct (v =? t_sim (get s i)) eqn:E.
    + apply Z.eqb_eq in E. destruct (t_simd (get s i)) eqn:Es.
      * apply Inv_write_silent; [exact I|cbn; discriminate|]. unfold visible. cbn. now rewrite Es.
      * exfalso. rewrite (inv_sim s I i Es) in E. subst v. discriminate.
    + apply Inv_write_notify; [exact I|cbn; discriminate].
  - (* OStopSim *) destruct (t_simd (get s i)) eqn:Es.
    + apply Inv_write_notify; [exact I|reflexivity].
    + apply Inv_write_silent; [exact I|reflexivity|]. unfold visible. cbn. now rewrite Es.
  - (* OStamp *) apply Inv_write_silent; [exact I|cbn; apply I|reflexivity].
  - (* ONotify *) destruct I as [L P S]. split; cbn [tags changes queue rep]; [exact L| |exact S].
    intros i Hi Hne. specialize (P i Hi Hne). rewrite mem_app. cbn [mem existsb].
    apply orb_true_iff in P as [P|P]; rewrite P; now rewrite ?orb_true_r.
  - (* OCollect *) destruct I as [L P S].
    set (q := if snapshot then queue s ++ seq 0 (length (tags s)) else queue s).
    split; cbn [tags changes queue rep].
    + now rewrite map_length, combine_length, seq_length, Nat.min_id.
    + intros i Hi Hne. change (get _ i) with (get s i) in Hne.
      unfold n_tags in Hi. cbn in Hi.
      rewrite nth_rep_update in Hne by lia. fold q in Hne.
      destruct (mem i q) eqn:Eq; [congruence|].
      specialize (P i Hi Hne). apply orb_true_iff in P as [P|P]; [now rewrite P|].
      exfalso. subst q. destruct snapshot; [rewrite mem_app in Eq|]; rewrite P in Eq; discriminate.
    + exact S.
Qed.

Lemma exec_Inv ops : forall s, forallb disciplined ops = true -> Inv s -> Inv (fold_left step ops s).
Proof.
  induction ops as [|o ops IH]; intros s D I; cbn; [exact I|].
  cbn in D. apply andb_true_iff in D as [D1 D2]. apply IH; [exact D2|]. now apply step_Inv.
Qed.

(* the report taken after the engine's notify step *)
Definition next_report (s : st) (snap : bool) : report :=
  last (out (step (step s ONotify) (OCollect snap))) {| r_entries := []; r_truth := [] |}.

Lemma next_report_entries s snap :
  r_entries (next_report s snap)
  = map (entry s) (sort (dedupe (if snap then (queue s ++ changes s) ++ seq 0 (length (tags s)) else queue s ++ changes s) [])).
Proof. unfold next_report. cbn. rewrite last_last. cbn. destruct snap; reflexivity. Qed.

Theorem report_complete ts ops i :
  wf_tags ts -> forallb disciplined ops = true ->
  let s := exec ts ops in
  (i < n_tags s)%nat -> visible (get s i) <> nth i (rep s) 0 ->
  In (i, visible (get s i), t_stamp (get s i)) (r_entries (next_report s false)).
Proof.
  intros W D s Hi Hne. pose proof (exec_Inv ops (init ts) D (Inv_init ts W)) as I. fold (exec ts ops) in I. fold s in I.
  rewrite next_report_entries. apply in_map_iff. exists i. split; [reflexivity|].
  rewrite In_sort, In_dedupe. split; [|tauto]. apply mem_In. rewrite mem_app, orb_comm. now apply (inv_pending s I).
Qed.

Theorem report_nodup s snap : NoDup (map (fun e => fst (fst e)) (r_entries (next_report s snap))).
Proof.
  rewrite next_report_entries, map_map. cbn. rewrite map_id. apply NoDup_sort, NoDup_dedupe.
Qed.

Theorem snapshot_all s i : (i < n_tags s)%nat ->
  In (i, visible (get s i), t_stamp (get s i)) (r_entries (next_report s true)).
Proof.
  intros Hi. rewrite next_report_entries. apply in_map_iff. exists i. split; [reflexivity|].
  rewrite In_sort, In_dedupe. split; [|tauto]. apply in_or_app. right. apply in_seq. unfold n_tags in Hi. lia.
Qed.

(* the value a report carries is the current one *)
Theorem report_values_current s snap i v stp :
  In (i, v, stp) (r_entries (next_report s snap)) -> v = visible (get s i) /\ stp = t_stamp (get s i).
Proof.
  rewrite next_report_entries. intros H. apply in_map_iff in H as [j [E _]]. unfold entry in E. inversion E; subst. auto.
Qed.

(* with a raw assignment the statement fails: Block Time as it was *)
Definition raw_witness_tags : list tag := [{| t_val := 1; t_sim := 0; t_simd := false; t_stamp := 0 |}].
Definition raw_witness_ops : list op := [OTick 10; ORawVal 0 2].
Lemma raw_assignment_unreported :
  let s := exec raw_witness_tags raw_witness_ops in
  visible (get s 0) <> nth 0 (rep s) 0 /\ r_entries (next_report s false) = [].
Proof. vm_compute. split; [discriminate|reflexivity]. Qed.

(* the monitor evaluated on implementation reports accepts the model's own reports when every
   collect directly follows a notify... (checked on cases; see correspondence) *)

(* ---------- C16: time stamps ---------- *)
(* every stamping call passes the engine's current tick time; tick times never decrease *)
Fixpoint stamps_ok (nowt : Z) (ops : list op) : bool :=
  match ops with
  | [] => true
  | OTick t :: r => (nowt <=? t) && stamps_ok t r
  | OSet _ _ stp :: r | OSim _ _ stp :: r | OStamp _ stp :: r => (stp =? nowt) && stamps_ok nowt r
  | _ :: r => stamps_ok nowt r
  end.

Definition bounded (s : st) : Prop := forall i, t_stamp (get s i) <= now s.

Lemma get_set s i j t : get (set_tag s i t) j = if Nat.eqb i j && Nat.ltb i (n_tags s) then t else get s j.
Proof.
  destruct (Nat.eqb_spec i j) as [->|E].
  - destruct (Nat.ltb_spec j (n_tags s)) as [L|L]; cbn [andb].
    + now apply get_set_same.
    + now rewrite get_set_out.
  - cbn [andb]. now apply get_set_other.
Qed.

Lemma get_notify s i j : get (notify s i) j = get s j.
Proof. reflexivity. Qed.

Lemma stamp_set s i t j :
  t_stamp (get (set_tag s i t) j) = t_stamp (get s j) \/ t_stamp (get (set_tag s i t) j) = t_stamp t.
Proof. rewrite get_set. destruct (_ && _); auto. Qed.

Lemma stamp_set_keep s i t j : t_stamp t = t_stamp (get s i) -> t_stamp (get (set_tag s i t) j) = t_stamp (get s j).
Proof.
  intros H. rewrite get_set. destruct (Nat.eqb_spec i j) as [->|E]; cbn [andb]; [|reflexivity].
  destruct (Nat.ltb j (n_tags s)); [exact H|reflexivity].
Qed.

(* what one step does to the clock and to a stamp *)
Lemma step_stamp_cases s o r :
  stamps_ok (now s) (o :: r) = true ->
  now s <= now (step s o) /\ stamps_ok (now (step s o)) r = true /\
  forall j, t_stamp (get (step s o) j) = t_stamp (get s j)
            \/ (t_stamp (get (step s o) j) = now s /\ now (step s o) = now s).
Proof.
  intros H. destruct o; cbn [stamps_ok] in H; cbn [step].
  - apply andb_true_iff in H as [H1 H2]. apply Z.leb_le in H1. cbn [now]. repeat split; auto.
  - apply andb_true_iff in H as [H1 H2]. apply Z.eqb_eq in H1. subst st.
    destruct (v =? t_val (get s i)); [repeat split; auto; lia|].
    repeat split; [cbn; lia|exact H2|]. intros j. rewrite get_notify.
    destruct (stamp_set s i {| t_val := v; t_sim := t_sim (get s i); t_simd := t_simd (get s i); t_stamp := now s |} j) as [K|K];
      rewrite K; cbn; auto.
  - apply andb_true_iff in H as [H1 H2]. apply Z.eqb_eq in H1. subst st.
    destruct (v =? t_sim (get s i)).
    + repeat split; [cbn; lia|exact H2|]. intros j. left. now apply stamp_set_keep.
    + repeat split; [cbn; lia|exact H2|]. intros j. rewrite get_notify.
      destruct (stamp_set s i {| t_val := t_val (get s i); t_sim := v; t_simd := true; t_stamp := now s |} j) as [K|K];
        rewrite K; cbn; auto.
  - destruct (t_simd (get s i)); (repeat split; [cbn; lia|exact H|]); intros j; left;
      rewrite ?get_notify; now apply stamp_set_keep.
  - repeat split; [cbn; lia|exact H|]. intros j. left. now apply stamp_set_keep.
  - repeat split; [cbn; lia|exact H|]. intros j. left. now apply stamp_set_keep.
  - repeat split; [cbn; lia|exact H|]. intros j. left. now apply stamp_set_keep.
  - apply andb_true_iff in H as [H1 H2]. apply Z.eqb_eq in H1. subst st.
    repeat split; [cbn; lia|exact H2|]. intros j.
    destruct (stamp_set s i {| t_val := t_val (get s i); t_sim := t_sim (get s i); t_simd := t_simd (get s i); t_stamp := now s |} j) as [K|K];
      rewrite K; cbn; auto.
  - repeat split; [cbn; lia|exact H|]. intros j. now left.
  - repeat split; [cbn; lia|exact H|]. intros j. now left.
Qed.

(* one step: stamps stay below the clock, never decrease, and a stamp either stays or becomes the
   engine time of the current tick *)
Lemma step_stamps s o r :
  stamps_ok (now s) (o :: r) = true -> bounded s ->
  bounded (step s o) /\ stamps_ok (now (step s o)) r = true /\
  (forall i, t_stamp (get s i) <= t_stamp (get (step s o) i)) /\
  (forall i, t_stamp (get (step s o) i) = t_stamp (get s i) \/ t_stamp (get (step s o) i) = now (step s o)).
Proof.
  intros H B. destruct (step_stamp_cases s o r H) as [N [H' C]].
  split; [|split; [exact H'|split]].
  - intros i. destruct (C i) as [K|[K1 K2]]; [rewrite K; specialize (B i); lia|lia].
  - intros i. destruct (C i) as [K|[K1 K2]]; [lia|specialize (B i); lia].
  - intros i. destruct (C i) as [K|[K1 K2]]; [auto|right; lia].
Qed.

(* over a whole run: every stamp ever reported lies in [start, now], and per tag never decreases *)
Lemma run_stamps ops : forall s, stamps_ok (now s) ops = true -> bounded s ->
  bounded (fold_left step ops s) /\ (forall i, t_stamp (get s i) <= t_stamp (get (fold_left step ops s) i)).
Proof.
  induction ops as [|o ops IH]; intros s H B; cbn [fold_left]; [split; [exact B|intros; lia]|].
  destruct (step_stamps s o ops H B) as [B' [H' [M _]]].
  destruct (IH (step s o) H' B') as [B'' M'']. split; [exact B''|].
  intros i. specialize (M i). specialize (M'' i). lia.
Qed.

(* a value-changing set_value is stamped with the clock of the tick in which it happens *)
Lemma set_stamped_now s i v :
  (i < n_tags s)%nat -> v <> t_val (get s i) ->
  let s' := step s (OSet i v (now s)) in t_val (get s' i) = v /\ t_stamp (get s' i) = now s'.
Proof.
  intros Hi Hv. cbn [step]. destruct (v =? t_val (get s i)) eqn:E; [apply Z.eqb_eq in E; congruence|].
  change (get (notify ?x i) i) with (get x i). rewrite get_set_same by exact Hi. cbn. auto.
Qed.

(* stamping with anything else (a tick number, the wall clock) is caught by the monitor *)
Lemma tick_number_stamp_caught :
  c16_holds_b ([(1, 0, false, 0)], [OTick 4000; OSet 0 2 3; ONotify; OCollect false])
              (run ([(1, 0, false, 0)], [OTick 4000; OSet 0 2 3; ONotify; OCollect false])) = false.
Proof. vm_compute. reflexivity. Qed.
