(* C07: proofs. *)
From Coq Require Import ZArith List Bool Arith Lia.
From OP Require Import lib.Obs model.Eng model.EngRun model.C07 proofs.Eng_prims.
Import ListNotations.
Open Scope Z_scope.

Lemma mon7_app l : forall c l',
  mon7 c (l ++ l') = match mon7 c l with Some c' => mon7 c' l' | None => None end.
Proof.
  induction l as [|x l IH]; intros c l'; [reflexivity|].
  cbn [app]. destruct x; cbn [mon7]; try apply IH.
  destruct (clock_rule s dt before after && _ && _); [apply IH|reflexivity].
Qed.

Lemma sys_eqb_refl s : sys_eqb s s = true.
Proof. destruct s; reflexivity. Qed.

(* ---------- one update ---------- *)
Lemma advance_rule e dt : clock_rule (sys e) dt (clocks e) (clocks (advance_clocks e dt)) = true.
Proof.
  unfold advance_clocks, clocks, clock_rule, active. cbv zeta.
  destruct (sys e); destruct (bpaused e); cbn [sys_eqb orb andb negb set_clk set_scope ptime rtime btime stime];
    rewrite ?Z.eqb_refl; reflexivity.
Qed.

Lemma advance_same e dt : trace (advance_clocks e dt) = trace e.
Proof. unfold advance_clocks. cbv zeta. destruct (bpaused e || _); reflexivity. Qed.

Lemma process_time_law e dt :
  ptime (update_clocks e dt) = if sys_eqb (sys e) Running then ptime e + dt else ptime e.
Proof. unfold update_clocks, advance_clocks. cbv zeta. destruct (bpaused e || _); reflexivity. Qed.

Lemma run_time_law e dt :
  rtime (update_clocks e dt) = if active (sys e) then rtime e + dt else rtime e.
Proof.
  unfold update_clocks, advance_clocks, active. cbv zeta.
  destruct (bpaused e || _); cbn [emit set_clk set_scope rtime]; destruct (sys_eqb (sys e) Stopped || sys_eqb (sys e) Restarting); reflexivity.
Qed.

Lemma block_scope_law e dt : sys e <> Running ->
  btime (update_clocks e dt) = btime e /\ stime (update_clocks e dt) = stime e.
Proof.
  intros H. unfold update_clocks, advance_clocks. cbv zeta.
  assert (N : sys_eqb (sys e) Running = false) by (destruct (sys e); try reflexivity; congruence).
  rewrite N. cbn [negb]. rewrite orb_true_r. split; reflexivity.
Qed.

Lemma clock_rule_monotone s dt b a : clock_rule s dt b a = true -> 0 <= dt ->
  nth 0 b 0 <= nth 0 a 0 /\ nth 1 b 0 <= nth 1 a 0.
Proof.
  destruct b as [|p [|r [|bt [|st [|]]]]]; try discriminate. destruct a as [|p' [|r' [|bt' [|st' [|]]]]]; try discriminate.
  cbn [clock_rule nth]. intros H Hd. apply andb_prop in H as [H _]. apply andb_prop in H as [H1 H2].
  apply Z.eqb_eq in H1. apply Z.eqb_eq in H2. destruct (sys_eqb s Running), (active s); lia.
Qed.

Section C07.
  Variable safe : list (option Z).
  Variable overlaps : list (list nat).

  Definition R7 (e : E) : Prop := mon7 (0, 0) (trace e) = Some (ptime e, rtime e).

  Lemma R7_neutral e e' : trace e' = trace e -> ptime e' = ptime e -> rtime e' = rtime e -> R7 e -> R7 e'.
  Proof. unfold R7. intros -> -> ->. exact id. Qed.

  Lemma apply_safe_same e : trace (fst (apply_safe safe e)) = trace e /\ ptime (fst (apply_safe safe e)) = ptime e
    /\ rtime (fst (apply_safe safe e)) = rtime e.
  Proof. unfold apply_safe. destruct (safe_from 0 safe (outs e)). cbn. repeat split. Qed.

  Lemma R7_emit_other e x : (match x with EStarted _ | EClock _ _ _ _ => false | _ => true end) = true -> R7 e -> R7 (emit e x).
  Proof.
    unfold R7. intros U H. cbn [emit trace ptime rtime]. rewrite mon7_app, H. destruct x; try discriminate U; reflexivity.
  Qed.

  Lemma R7_write e : R7 e -> R7 (write_image e).
  Proof.
    intros H. unfold write_image. destruct (negb (started e)); [exact H|]. destruct (wok e).
    - apply (R7_emit_other (set_io e (prev e) (outs e) (map Some (outs e)))); [reflexivity|exact H].
    - destruct (last_err e); [exact H|]. unfold set_error_state. apply R7_emit_other; [reflexivity|].
      apply (R7_neutral e); [reflexivity|reflexivity|reflexivity|exact H].
  Qed.

  Lemma R7_prim e e' : prim safe e e' -> R7 e -> R7 e'.
  Proof.
    intros P H. destruct P; try (apply (R7_neutral e); [reflexivity|reflexivity|reflexivity|exact H]).
    - (* update_clocks *) unfold R7 in *. unfold update_clocks. cbv zeta. cbn [emit trace ptime rtime].
      rewrite advance_same, mon7_app, H. cbn [mon7]. rewrite advance_rule. unfold clocks at 1 2. cbn [nth fst snd].
      rewrite !Z.eqb_refl. reflexivity.
    - (* init *) apply (R7_neutral (emit e (EUInit n (c_id c)))); [reflexivity|reflexivity|reflexivity|].
      apply R7_emit_other; [reflexivity|exact H].
    - (* exec *) apply R7_emit_other; [reflexivity|exact H].
    - (* finalize *) unfold fin_u. apply (R7_neutral (emit e (EUFinal (c_name c) (c_id c)))); [reflexivity|reflexivity|reflexivity|].
      apply R7_emit_other; [reflexivity|exact H].
    - now apply R7_write.
    - (* set_out_by *) unfold set_out_by. apply R7_emit_other; [reflexivity|].
      apply (R7_neutral e); [reflexivity|reflexivity|reflexivity|exact H].
    - (* unpause *) unfold unpause_body. cbv zeta.
      apply (R7_neutral (emit e (EUnpause (prev e)))); [| | |apply R7_emit_other; [reflexivity|exact H]];
        cbn [emit prev set_sys upd_flags]; destruct (prev e); reflexivity.
    - (* unhold *) apply (R7_neutral e); [| | |exact H]; unfold unhold_body; destruct (paused e); reflexivity.
    - (* pause *) unfold pause_begin. cbv zeta. set (e1 := set_sys _ _).
      destruct (apply_safe_same e1) as [T1 [P1 Q1]]. destruct (apply_safe safe e1) as [e2 c]. cbn [fst] in T1, P1, Q1.
      unfold R7 in *. cbn [set_clk emit set_io trace ptime rtime]. rewrite T1, P1, Q1. unfold e1. cbn [set_sys upd_flags trace ptime rtime].
      rewrite mon7_app, H. reflexivity.
    - (* hold *) apply (R7_neutral e); [| | |exact H]; unfold hold_begin; destruct (paused e); reflexivity.
    - (* start_body *) unfold R7 in *. unfold start_body, new_run. cbv zeta.
      cbn [set_sys set_trk set_clk set_err emit set_run set_io upd_flags trace ptime rtime]. rewrite mon7_app, H. reflexivity.
    - (* stop_core *) unfold stop_core. apply (R7_neutral (write_image (stop_pre safe e))); [reflexivity|reflexivity|reflexivity|].
      apply R7_write. unfold R7 in *. unfold stop_pre.
      destruct (apply_safe_same e) as [T1 [P1 Q1]]. destruct (apply_safe safe e) as [e1 c]. cbn [fst] in T1, P1, Q1.
      cbn [set_sys set_trk set_clk set_err emit set_run set_io upd_flags trace ptime rtime]. rewrite T1, P1, Q1, mon7_app, H. reflexivity.
    - (* restart_stop *) unfold R7 in *. unfold restart_stop. cbv zeta.
      cbn [set_sys set_trk set_clk set_err emit set_run set_io upd_flags trace ptime rtime]. rewrite mon7_app, H. reflexivity.
    - (* restart_finish *) unfold R7 in *. unfold restart_finish, new_run. cbv zeta.
      cbn [set_sys set_trk set_clk set_err emit set_run set_io upd_flags trace ptime rtime]. rewrite mon7_app, H. reflexivity.
    - (* set_error_state *) unfold set_error_state. apply R7_emit_other; [reflexivity|].
      apply (R7_neutral e); [reflexivity|reflexivity|reflexivity|exact H].
  Qed.

  Lemma R7_boot n outs0 : R7 (boot safe (init n outs0)).
  Proof.
    unfold boot. cbv zeta. destruct (apply_safe_same (init n outs0)) as [T1 [P1 Q1]].
    apply R7_emit_other; [reflexivity|].
    apply (R7_neutral (fst (apply_safe safe (init n outs0)))); [reflexivity|reflexivity|reflexivity|].
    unfold R7. now rewrite T1, P1, Q1.
  Qed.

  Theorem R7_reachable n outs0 ops :
    R7 (fold_left (fun e o => fst (step safe overlaps e o)) ops (boot safe (init n outs0))).
  Proof. apply (invariant_by_prims safe overlaps R7 R7_prim). apply R7_boot. Qed.

  (* a run starts with both clocks at zero *)
  Lemma start_zero e : ptime (start_body e) = 0 /\ rtime (start_body e) = 0.
  Proof. split; reflexivity. Qed.
  Lemma restart_zero e : ptime (restart_finish e) = 0 /\ rtime (restart_finish e) = 0.
  Proof. split; reflexivity. Qed.
End C07.
