(* C11 Command exclusivity and init/finalize pairing. Statements only. *)
From Coq Require Import ZArith List Bool Arith.
From OP Require Import lib.Obs model.Eng model.EngRun model.C11 proofs.Eng_prims proofs.C11_proofs.
Import ListNotations.
Open Scope Z_scope.

(* The full property is the STRICT discipline (mon11 true) on the init / exec / finalize calls: one live instance per
   command, exec only between init and finalize, no instance initialised or finalized twice, the older of two
   conflicting (same or overlapping) commands never executes after the newer was initialised, nothing live when the run
   stops. It is what the monitor checks on the real engine.

   PROVED of the model, for EVERY state reachable by ANY operation sequence (faults, failing commands, Stop / Restart at
   any tick included): the trace obeys the life-cycle discipline
     - a command is initialised only when no instance of the same command is live (never two instances of one command),
     - every exec call is on an instance that has been initialised and not yet finalized,
   and the live set the discipline tracks IS the set of initialised instances the engine holds (uod.command_instances):
   an instance is live exactly from its init call to its finalize call, and finalize disposes it. *)
Theorem C11_instance_life_cycle_partial : forall safe overlaps n outs0 ops,
  let e := fold_left (fun e o => fst (step safe overlaps e o)) ops (boot safe (init n outs0)) in
  exists s, mon11 false overlaps st11_0 (trace e) = Some s /\
    forall k id, In (k, id) (live s) <-> exists c, find_u e k = Some c /\ c_id c = id /\ c_init c = true.
Proof. intros safe overlaps n outs0 ops. exact (J_reachable safe overlaps n outs0 ops). Qed.
Print Assumptions C11_instance_life_cycle_partial.

(* "requesting such a command first cancels the older one": _cancel_command on a UOD request leaves the instance that
   request started either disposed or marked cancelled (exec_uod finalizes a cancelled instance instead of executing
   it), and leaves an instance that belongs to another request alone *)
Theorem C11_cancel_marks_own_instance : forall e m r k, r_name r = CU k ->
  match find_u (fst (cancel_request e m r)) k with
  | None => True
  | Some c => c_id c = r_id r -> c_cancelled c = true
  end.
Proof. exact cancel_request_effect. Qed.
Print Assumptions C11_cancel_marks_own_instance.

(* ... and a cancelled request that had not started an instance yet is done: it never starts one (the /repo fix) *)
Theorem C11_cancelled_unstarted_request_is_done : forall e m r,
  existsb (fun x => Nat.eqb (r_id x) (r_id r)) (m_exe e m) = true ->
  memn (r_id r) (m_done (fst (cancel_unstarted e m r)) (snd (cancel_unstarted e m r))) = true.
Proof. exact cancel_unstarted_done. Qed.
Print Assumptions C11_cancelled_unstarted_request_is_done.

(* the strict monitor rejects what the engine did before the fix (three requests for one command within two ticks: the
   newest two were dropped and the OLDEST was initialised again), and a command that outlives its run *)
Example C11_monitor_rejects :
  mon11 true [[1%nat; 2%nat]] st11_0
    [EUInit 1 1; EUExec 1 1 0; EUFinal 1 1; EUInit 1 3; EUExec 1 3 0; EUFinal 1 3; EUInit 1 1; EUExec 1 1 0] = None
  /\ mon11 true [[1%nat; 2%nat]] st11_0 [EStarted 0; EUInit 2 4; EUExec 2 4 0; EStoppedRun] = None
  /\ mon11 true [[1%nat; 2%nat]] st11_0 [EUInit 1 1; EUExec 1 1 0; EUInit 2 2; EUExec 2 2 0; EUExec 1 1 1] = None
  /\ exists s, mon11 true [[1%nat; 2%nat]] st11_0
       [EUInit 1 1; EUExec 1 1 0; EUFinal 1 1; EUInit 2 2; EUExec 2 2 0; EUFinal 2 2; EStoppedRun] = Some s.
Proof. repeat split; try (vm_compute; reflexivity). eexists. vm_compute. reflexivity. Qed.
