From Coq Require Import ZArith List Bool Arith.
From OP Require Import lib.Obs model.Eng model.EngRun model.C11 proofs.Eng_prims proofs.C11_proofs.
Theorem C11_tmp : True. Proof. exact I. Qed.
