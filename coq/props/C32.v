(* C32 Role-based access control covers every unit and run endpoint. Statements only. *)
From Coq Require Import List Bool Arith String.
From OP Require Import lib.Obs gen.Routes model.C32 proofs.C32_proofs.
Import ListNotations.
Local Open Scope string_scope.
Local Open Scope list_scope.

(* has_access refuses exactly when the required set is non-empty and disjoint from the user's roles ... *)
Theorem C32_has_access_spec : forall required user,
  has_access required user = false <-> required <> [] /\ forall r, In r required -> ~ In r user.
Proof. exact has_access_spec. Qed.
Print Assumptions C32_has_access_spec.

(* ... and objects that require no role are open to everyone. *)
Theorem C32_no_roles_open : forall user, has_access [] user = true.
Proof. exact has_access_open. Qed.
Print Assumptions C32_no_roles_open.

(* A guarded handler answers 403 to a user lacking every required role, before its body runs
   (no data read, nothing sent to the engine); it lets pass a user holding one of them, and everybody
   when nothing is required. *)
Theorem C32_guard_refuses : forall required user,
  required <> [] -> (forall r, In r required -> ~ In r user) -> handle Guarded (Some required) user = R403.
Proof. exact guarded_refuses. Qed.
Print Assumptions C32_guard_refuses.

Theorem C32_guard_admits : forall required user r,
  In r required -> In r user -> handle Guarded (Some required) user = RPass.
Proof. exact guarded_member. Qed.
Print Assumptions C32_guard_admits.

Theorem C32_listings_filtered : forall objs user,
  listing ListingFiltered objs user = map (fun required => has_access required user) objs.
Proof. exact listing_filtered. Qed.
Print Assumptions C32_listings_filtered.

(* The table of ALL routes of routers/process_unit.py, recent_runs.py and lsp.py, regenerated from their ASTs
   on every run.  Full statement: every route that takes a unit or run (or lists them) guards / filters. *)
Definition route_ok (r : string * string * string * bool * bool * guard_kind) : bool :=
  match snd r with Guarded | ListingFiltered | NoObject => true | Unguarded | ListingUnfiltered => false end.
Definition C32_all_routes_guarded_statement : Prop := forallb route_ok routes = true.

(* FALSE on the current tree: the two LSP endpoints look an engine up without roles. *)
Theorem C32_all_routes_guarded_refuted : ~ C32_all_routes_guarded_statement.
Proof. unfold C32_all_routes_guarded_statement. vm_compute. discriminate. Qed.
Print Assumptions C32_all_routes_guarded_refuted.

Definition known_unguarded : list string := ["lsp.get_pcode_tm_grammar"; "lsp.lsp_server_endpoint"].
Theorem C32_all_routes_guarded_partial :
  forallb (fun r => route_ok r || existsb (String.eqb (fst (fst (fst (fst (fst r)))))) known_unguarded) routes = true.
Proof. vm_compute. reflexivity. Qed.
Print Assumptions C32_all_routes_guarded_partial.

(* On every guarded route and every filtered listing the model meets the monitor that is evaluated on
   the implementation's responses. *)
Theorem C32_monitor_sound_guarded : forall i obj user,
  kind_of i = Guarded -> holds_b (QRoute i obj user) (run (QRoute i obj user)) = true.
Proof. exact monitor_sound_guarded. Qed.
Print Assumptions C32_monitor_sound_guarded.

Theorem C32_monitor_sound_listing : forall i objs user,
  kind_of i = ListingFiltered -> holds_b (QList i objs user) (run (QList i objs user)) = true.
Proof. exact monitor_sound_listing. Qed.
Print Assumptions C32_monitor_sound_listing.

Example C32_nonvacuous :
  handle Guarded (Some [1; 2]) [3] = R403 /\ handle Guarded (Some [1; 2]) [2; 3] = RPass /\
  handle Guarded (Some []) [] = RPass /\ handle Guarded None [1] = R404 /\
  listing ListingFiltered [[1]; []; [2; 3]] [3] = [false; true; true].
Proof. vm_compute. repeat split. Qed.
