(* C30 Each run yields exactly one recent run and one plot log. Statements only.
   (model/Agg.v models the repaired create_plot_log; see KNOWN_FINDINGS.json) *)
From Coq Require Import ZArith List Bool Arith.
From OP Require Import lib.Obs model.C29 model.Agg proofs.Agg_proofs.
Import ListNotations.
Open Scope Z_scope.

(* One plot log per (engine, run) in every state reachable by ANY history: duplicated, resent and
   reordered notifications, disconnects, graceful restarts and crashes of the aggregator. *)
Theorem C30_one_plot_log : forall interval entries os,
  NoDup (plot_logs (data (final interval entries init os))).
Proof. intros interval entries os. apply reachable_pl. constructor. Qed.
Print Assumptions C30_one_plot_log.

(* Full-strength statement for recent runs. *)
Definition C30_one_recent_run_statement : Prop :=
  forall interval entries os, NoDup (recent_runs (data (final interval entries init os))).

(* It is FALSE of the faithful model: a run-started notification replayed after the run was
   stopped and stored re-opens the run, and the replayed stop stores it a second time. *)
Theorem C30_one_recent_run_refuted : ~ C30_one_recent_run_statement.
Proof.
  intros H.
  specialize (H None [] [Register 0%nat; RunStarted 0%nat 1 0; RunStopped 0%nat 1;
                          RunStarted 0%nat 1 0; RunStopped 0%nat 1]).
  vm_compute in H. inversion H as [|x l Hnin _]; subst. apply Hnin. now left.
Qed.
Print Assumptions C30_one_recent_run_refuted.

(* Partial: exactly one record per run on every history in which no run id that is already stored
   is installed again (by a replayed run-started or by a stale recent-engine row after a crash). *)
Theorem C30_one_recent_run_partial : forall interval entries os,
  guarded interval entries init os = true ->
  NoDup (recent_runs (data (final interval entries init os))).
Proof.
  intros interval entries os H. exact (rr_nodup _ (reachable_rr interval entries os init init_rr H)).
Qed.
Print Assumptions C30_one_recent_run_partial.

(* ... and while a run is open it has no record yet: it is stored when it stops, not before. *)
Theorem C30_open_run_not_stored : forall interval entries os,
  guarded interval entries init os = true ->
  let s := final interval entries init os in
  forall x c, In x (engines s) -> e_run x = Some c -> ~ In (e_id x, rd_id c) (recent_runs (data s)).
Proof.
  intros interval entries os H. exact (rr_open _ (reachable_rr interval entries os init init_rr H)).
Qed.
Print Assumptions C30_open_run_not_stored.

(* Non-vacuity: a history with duplicated start and stop notifications and a reconnect satisfies
   the guard and stores the run once. *)
Example C30_nonvacuous :
  let os := [Register 0%nat; RunStarted 0%nat 1 0; RunStarted 0%nat 1 0; Disconnect 0%nat; Register 0%nat;
             RunStarted 0%nat 1 0; RunStopped 0%nat 1; RunStopped 0%nat 1] in
  guarded None [] init os = true /\
  recent_runs (data (final None [] init os)) = [(0%nat, 1)] /\
  plot_logs (data (final None [] init os)) = [(0%nat, 1)].
Proof. vm_compute. repeat split; reflexivity. Qed.
