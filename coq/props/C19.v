(* C19 Method analysis never crashes and flags undefined names. Statements only. *)
From Coq Require Import List Bool Arith.
From OP Require Import lib.Obs model.C19 proofs.C19_proofs.
Import ListNotations.

(* For EVERY combination of the facts the analyzers test on a Watch / Alarm condition, a Simulate assignment, a Simulate
   off argument or a command line (name defined or not, long or short, any / no names in the collection, with or without
   a close spelling match, operator / value / unit facts), the diagnostic the analyzer's decision logic gives
     - is not a crash,
     - is an "undefined" diagnostic (with or without a spelling suggestion) whenever the referenced name is undefined,
     - is some error whenever the condition / assignment is incomplete (missing, no tag, no operator, no value). *)
Theorem C19_every_line_diagnosed : forall l,
  line_ok l (match l with LCond c => analyze_condition c | LSim c => analyze_simulate c | LSimOff o => analyze_simoff o
                        | LCmd k => analyze_command k end) = true.
Proof. exact line_always_ok. Qed.
Print Assumptions C19_every_line_diagnosed.

(* ... hence for methods of any length *)
Theorem C19_method_analysis_holds : forall i, holds_b i (run i) = true.
Proof. exact run_holds. Qed.
Print Assumptions C19_method_analysis_holds.

(* an undefined name resolves to "suggest" or "unknown", never to the found branch (which looks the name up) *)
Theorem C19_undefined_never_looked_up : forall l, l_defined l = false -> resolve l = LSuggest \/ resolve l = LUnknown.
Proof. exact resolve_undefined. Qed.
Print Assumptions C19_undefined_never_looked_up.

(* the decision logic before the /repo fix, as a model variant: a long undefined tag name WITHOUT a close match in an
   otherwise complete condition fell through to tags.get(name), which raises *)
Example C19_old_code_crashed :
  analyze_condition_old {| c_present := true; c_tag_blank := false;
                           c_lookup := {| l_defined := false; l_long := true; l_any := true; l_similar := false |};
                           c_op_ok := true; c_value_empty := false; c_tag_unit := false; c_cond_unit := false;
                           c_rhs_is_unit := false; c_unit_error := false; c_comparable := false |} = DCrash.
Proof. exact old_code_crashed. Qed.

(* MODELLED, NOT VERIFIED: the facts (is the name defined; Levenshtein ratio > 0.7; unit compatibility; regex argument
   validation; what the parser extracts as tag name / operator / value / unit) are inputs of the model, computed by the
   harness from the real parsed node and the real collections with the library functions the analyzers call. The other
   analyzers run by SemanticCheckAnalyzer (unreachable code, infinite block, indentation, threshold, whitespace, macro) are
   not modelled; the check runs them (through lsp_analysis.analyze) on every generated text and any exception is a violation. *)
