(* C31 Method saves use optimistic concurrency without lost updates. Statements only.
   (model/C31.v models the repaired save_method with its per-engine lock; see KNOWN_FINDINGS.json) *)
From Coq Require Import ZArith List Bool Arith.
From OP Require Import lib.Obs model.C31 proofs.C31_proofs.
Import ListNotations.
Open Scope Z_scope.

(* For ALL schedules of any number of concurrent saves and engine replies: *)

(* of any set of saves based on the same version at most one is accepted (accepted bases are
   pairwise distinct, in fact strictly increasing) *)
Theorem C31_at_most_one_per_base : forall v os,
  NoDup (map snd (accepted (final (init v) os))).
Proof.
  intros v os. eapply increasing_nodup. exact (inv_acc _ (reachable_inv os (init v) (init_inv v))).
Qed.
Print Assumptions C31_at_most_one_per_base.

(* a save is accepted only if it was based on the current version, and each accepted save
   increases the version by exactly one; nothing else changes the version *)
Theorem C31_based_on_current_and_plus_one : forall s o, Inv s ->
  (version (step s o) = version s /\ accepted (step s o) = accepted s)
  \/ (exists i, o = Reply i true /\ holder s = Some (i, version s)
                /\ version (step s o) = version s + 1 /\ accepted (step s o) = accepted s ++ [(i, version s)]).
Proof. exact step_version. Qed.
Print Assumptions C31_based_on_current_and_plus_one.

Theorem C31_invariant : forall v os, Inv (final (init v) os).
Proof. intros v os. exact (reachable_inv os (init v) (init_inv v)). Qed.
Print Assumptions C31_invariant.

(* Non-vacuity and regression witness: two saves on the same base interleaved at the await (both
   were accepted with the same new version before the fix); the second is now rejected. *)
Example C31_nonvacuous :
  run (5, 3%nat, [Start 0%nat 5; Start 1%nat 5; Start 2%nat 6; Reply 0%nat true; Reply 2%nat true])
  = [(5, [2; 0; 0], [(0%nat, 6)]); (5, [2; 1; 0], [(0%nat, 6)]); (5, [2; 1; 1], [(0%nat, 6)]);
     (6, [16; 3; 2], [(0%nat, 6); (2%nat, 7)]); (7, [16; 3; 17], [(0%nat, 6); (2%nat, 7)])].
Proof. vm_compute. reflexivity. Qed.
