(* C17 Parsing maps every line to one node with indentation structure. Statements only. *)
From Coq Require Import List Bool Arith.
From OP Require Import lib.Obs model.C17 proofs.C17_proofs.
Import ListNotations.

(* Exactly one node per source line, in source order, for ANY text. *)
Theorem C17_one_node_per_line : forall ls, length (nest ls) = length ls.
Proof. intros ls. apply nest_from_length. Qed.
Print Assumptions C17_one_node_per_line.

(* Every node's parent is the root or an EARLIER line that opens a body, for ANY text. *)
Theorem C17_parent_is_earlier_opener : forall ls k par flag,
  nth_error (nest ls) k = Some (par, flag) ->
  match par with None => True | Some p => p < k /\ exists lp, nth_error ls p = Some lp /\ l_kind lp = O end.
Proof.
  intros ls k par flag H.
  exact (nest_from_parents ls ls init 0 (fun k ln H => H) (fun j c (H : In (j, c) []) => match H with end) k par flag H).
Qed.
Print Assumptions C17_parent_is_earlier_opener.

(* For well-indented text (indents multiples of four, a deeper line only directly under an opener
   and by exactly four, every opener followed by its body, blank/comment lines not deeper than the
   surrounding body) the tree is exactly the off-side rule's and nothing is flagged. *)
Theorem C17_well_indented : forall ls,
  well_indented ls = true -> nest ls = map (fun p => (p, false)) (nest_spec ls).
Proof. exact well_indented_spec. Qed.
Print Assumptions C17_well_indented.

(* Full-strength "flag or specification" statement for arbitrary text ... *)
Definition C17_flag_or_spec_statement : Prop :=
  forall ls, existsb snd (nest ls) = true \/
             forall k ln, nth_error ls k = Some ln -> l_kind ln <> W ->
                          nth_error (map fst (nest ls)) k = nth_error (nest_spec ls) k.

(* ... is FALSE of the faithful model: 'Block: A' / 'Mark: x' at the same indentation. *)
Theorem C17_flag_or_spec_refuted : ~ C17_flag_or_spec_statement.
Proof.
  intros H.
  destruct (H [ {| l_char := 0; l_kind := O; l_err := false |}; {| l_char := 0; l_kind := L; l_err := false |} ])
    as [Hf|Hs]; [vm_compute in Hf; discriminate|].
  specialize (Hs 1 _ eq_refl ltac:(discriminate)). vm_compute in Hs. discriminate.
Qed.
Print Assumptions C17_flag_or_spec_refuted.

Example C17_nonvacuous :
  let ls := map mk_line [(0, 1, false); (4, 2, false); (4, 0, false); (4, 1, false); (8, 2, false); (0, 0, false);
                         (4, 2, false); (0, 2, false)] in
  well_indented ls = true /\
  nest ls = [(None, false); (Some 0, false); (Some 0, false); (Some 0, false); (Some 3, false); (Some 3, false);
             (Some 0, false); (None, false)].
Proof. vm_compute. split; reflexivity. Qed.
