(* C20 A method the analyzer accepts does not fail on names, args or units. Statements only. *)
From Coq Require Import List Bool Arith.
From OP Require Import lib.Obs model.C19 model.C20 proofs.C20_proofs.

(* For EVERY combination of the facts the analyzers test on a line (Watch / Alarm condition, Simulate, Simulate off,
   command): if the analyzer reports nothing for the line, then the name resolves, a command accepts its argument, and a
   condition is complete with a unit that fits the tag's -- everything the engine needs of the line at run time. *)
Theorem C20_accepted_line_has_what_the_engine_needs : forall l, accepted (analyze l) = true -> runtime_needs l = true.
Proof. exact accepted_has_runtime_needs. Qed.
Print Assumptions C20_accepted_line_has_what_the_engine_needs.

Theorem C20_accepted_never_predicted_to_fail : forall l, holds_b l (run l) = true.
Proof. exact model_holds. Qed.
Print Assumptions C20_accepted_never_predicted_to_fail.

(* PARTIAL. The theorem is about the decision logic over facts. That the facts computed from the definitions the engine
   PUBLISHES (create_lsp_definition + get_command_definitions -> build_commands / build_tags) mean the same at run time
   (the command registry and argument parsers of the engine, its tag collection, units.compare_values) is what the
   correspondence observes: every generated line is analysed with the published definitions and run on that engine; for
   accepted lines the model's prediction "does not fail" is compared with the run. Lines whose failure has another cause
   (non-numeric condition values, Error / Stop instructions, hardware) are outside the generated vocabulary. *)
