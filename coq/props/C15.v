(* C15 Run log is always producible and well-formed. Statements only. *)
From Coq Require Import ZArith List Bool Arith.
From OP Require Import lib.Obs model.C15 proofs.C15_proofs.
Import ListNotations.
Open Scope Z_scope.

(* For EVERY list of runtime records -- any node classes, any names, any number of invocations per record, ANY sequence
   of tracking states per invocation (Cancelled then Failed, Completed then Cancelled, states after a conclusive state,
   missing Started ...), with any flags -- whose invocations are time-ordered, get_runlog produces a run log; it refuses
   only records with an invocation whose states go back in time; and every run log it produces is sorted by start time
   and consists of well-formed items: no item ends before it starts, and every completed, failed or cancelled item has an
   end time and is neither cancellable nor forcible. *)
Theorem C15_runlog_total_and_wellformed : forall rs,
  (all_ordered rs = true ->
     exists l, get_runlog rs = Some l /\ Forall (fun it => item_ok it = true) l /\ sorted_by_start l = true) /\
  (all_ordered rs = false -> get_runlog rs = None).
Proof. exact runlog_total_and_wellformed. Qed.
Print Assumptions C15_runlog_total_and_wellformed.

(* one invocation contributes at most one item, carrying the invocation's instance id; earlier items are left alone *)
Theorem C15_one_item_per_invocation : forall base s l,
  ordered (s :: l) = true ->
  exists a', invocation {| a_items := base; a_item := None; a_concluded := false; a_cmd := None |} (s :: l) true = Some a' /\
    (a_items a' = base \/ exists it, a_items a' = base ++ [it] /\ item_ok it = true /\ i_id it = s_inst s).
Proof. exact invocation_ok. Qed.
Print Assumptions C15_one_item_per_invocation.

(* the /repo fix is needed: before it a state after a conclusive state of the same invocation made get_runlog raise for
   the rest of the run; the model variant without the re-opening (item None -> AssertionError) is exactly what the
   engine stream of the check exercised: a failing UOD command records Cancelled then Failed. With the fix: *)
Example C15_cancelled_then_failed :
  get_runlog [{| r_class := COther; r_name := NName;
                 r_states := [{| s_name := SStarted; s_inst := 0; s_time := 1; s_tick := 1; s_cancellable := true; s_cancelled := false; s_forcible := false; s_forced := false |};
                              {| s_name := SCancelled; s_inst := 0; s_time := 2; s_tick := 2; s_cancellable := true; s_cancelled := true; s_forcible := false; s_forced := false |};
                              {| s_name := SFailed; s_inst := 0; s_time := 2; s_tick := 2; s_cancellable := true; s_cancelled := true; s_forcible := false; s_forced := false |}] |}]
  = Some [{| i_id := 0; i_state := IFailed; i_start := 1; i_end := Some 2; i_cancellable := false; i_cancelled := true;
             i_forcible := false; i_forced := false; i_failed := true |}].
Proof. vm_compute. reflexivity. Qed.

(* PARTIAL: "distinct ids" across records rests on instance ids being unique (uuid4), and "every completed instruction
   appears as a completed item" / "for any execution" depend on which states tracking records during a run: both are
   checked by the Coq monitor on the run logs the real engine produces after every operation of generated executions. *)
