(* C03 Thresholds and Wait durations are honoured. Statements only. *)
From Coq Require Import ZArith List Bool Arith.
From OP Require Import lib.Obs model.Interp model.InterpRun model.C02 model.C03 proofs.Interp_inv proofs.C05_proofs proofs.Interp_fields proofs.C02_proofs proofs.C03_clock.
Import ListNotations.
Open Scope Z_scope.

(* For EVERY tick of the interpreter model, from any state, with any environment: an instruction outside Alarm and Macro bodies
   whose threshold is still awaited in that tick (the scope clock has not reached it: the environment lists it) and that
   had not started before the tick has not started after it -- unless it was completed or forced. Whatever else the
   tick does (other generators, interrupts, errors), nothing but the threshold loop of `visit` starts a line, and that
   loop only lets it start once the threshold is no longer awaited. *)
Theorem C03_never_starts_before_its_threshold : forall p e rounds fuel main s main' s' raised,
  tick p rounds fuel e main s = Some (main', s', raised) ->
  forall m, C02_proofs.under_alarm p m = false ->
    started (st s' m) = true ->
    started (st s m) = true \/ completed (st s' m) = true \/ forced (st s m) = true \/ W p e m = false.
Proof.
  intros p e rounds fuel main s main' s' raised T m U H.
  destruct (tick_threshold p e rounds fuel main s main' s' raised T m U) as [_ [_ K]]. now apply K.
Qed.
Print Assumptions C03_never_starts_before_its_threshold.

(* The oracle of that theorem -- "is this threshold still awaited" -- as _is_awaiting_threshold decides it: an
   uncompleted, unforced line with a threshold T (in the current Base unit s / min / h) is held back EXACTLY while the
   clock of its scope -- Block Time when the Block tag names a block, Scope Time otherwise -- is below T; whether the line
   is run by the main flow or by a Watch / Alarm handler makes no difference. *)
Theorem C03_threshold_is_measured_on_the_scope_clock : forall k,
  awaiting_threshold k = true <->
  k_completed k = false /\ k_has_thr k = true /\ k_forced k = false /\ scope_clock k < 10 * k_thr k * factor (k_base k).
Proof. exact awaiting_spec. Qed.
Print Assumptions C03_threshold_is_measured_on_the_scope_clock.

Theorem C03_reached_threshold_is_not_awaited : forall k,
  10 * k_thr k * factor (k_base k) <= scope_clock k -> awaiting_threshold k = false.
Proof. exact reached_not_awaiting. Qed.
Print Assumptions C03_reached_threshold_is_not_awaited.

(* PARTIAL. The run model takes "is this threshold still awaited" from its environment; the clock stream ties that oracle
   to the real _is_awaiting_threshold (real tag objects, real units.compare_values) for the time units s / min / h; volume
   and CV base units and the upkeep of Scope Time / Block Time by the engine are not modelled (the clocks of C07).
   Promptness (a
   line starts in the first tick in which its threshold is no longer awaited and the line before it has been passed) and
   the Wait clause (the line after `Wait: d` starts no earlier than d - 0.1 s after the tick in which the Wait began, and
   the Wait completes in the first tick at or after that time) are decided by the Coq monitor on the real interpreter. *)
