(* C03 Thresholds and Wait durations are honoured. Statements only. *)
From Coq Require Import ZArith List Bool Arith.
From OP Require Import lib.Obs model.Interp model.InterpRun model.C02 model.C03 proofs.Interp_inv proofs.C05_proofs proofs.Interp_fields proofs.C02_proofs.
Import ListNotations.
Open Scope Z_scope.

(* For EVERY tick of the interpreter model, from any state, with any environment: an instruction outside alarm bodies
   whose threshold is still awaited in that tick (the scope clock has not reached it: the environment lists it) and that
   had not started before the tick has not started after it -- unless it was completed or forced. Whatever else the
   tick does (other generators, interrupts, errors), nothing but the threshold loop of `visit` starts a line, and that
   loop only lets it start once the threshold is no longer awaited. *)
Theorem C03_never_starts_before_its_threshold : forall p e rounds fuel main s main' s' raised,
  tick p rounds fuel e main s = Some (main', s', raised) ->
  forall m, C02_proofs.under_alarm p m = false ->
    started (st s' m) = true ->
    started (st s m) = true \/ completed (st s' m) = true \/ forced (st s m) = true \/ W p e m = false.
Proof.
  intros p e rounds fuel main s main' s' raised T m U H.
  destruct (tick_threshold p e rounds fuel main s main' s' raised T m U) as [_ [_ K]]. now apply K.
Qed.
Print Assumptions C03_never_starts_before_its_threshold.

(* PARTIAL. The environment is the oracle "is this threshold still awaited": the arithmetic that decides it from the scope
   clock, the base unit and the threshold (_is_awaiting_threshold, units.compare_values) is not modelled. Promptness (a
   line starts in the first tick in which its threshold is no longer awaited and the line before it has been passed) and
   the Wait clause (the line after `Wait: d` starts no earlier than d - 0.1 s after the tick in which the Wait began, and
   the Wait completes in the first tick at or after that time) are decided by the Coq monitor on the real interpreter. *)
