(* C16 Reported tag times are the engine time of the change. Statements only. *)
From Coq Require Import ZArith List Bool String Lia.
From OP Require Import lib.Obs model.Tags proofs.Tags_proofs gen.Sites.
Import ListNotations.
Local Open Scope string_scope.
Local Open Scope list_scope.
Open Scope Z_scope.

(* If every stamping call passes the engine clock of the current tick and tick times never decrease
   (stamps_ok), then over ANY run: every tag's stamp lies at or below the current tick time, and per tag
   stamps never decrease. *)
Theorem C16_stamps_in_range_and_monotone : forall ops s,
  stamps_ok (now s) ops = true -> bounded s ->
  bounded (fold_left step ops s) /\ (forall i, t_stamp (get s i) <= t_stamp (get (fold_left step ops s) i)).
Proof. exact run_stamps. Qed.
Print Assumptions C16_stamps_in_range_and_monotone.

(* In one step a stamp either stays what it was or becomes the engine time of the current tick. *)
Theorem C16_stamp_is_a_tick_time : forall s o r,
  stamps_ok (now s) (o :: r) = true -> bounded s ->
  bounded (step s o) /\ stamps_ok (now (step s o)) r = true /\
  (forall i, t_stamp (get s i) <= t_stamp (get (step s o) i)) /\
  (forall i, t_stamp (get (step s o) i) = t_stamp (get s i) \/ t_stamp (get (step s o) i) = now (step s o)).
Proof. exact step_stamps. Qed.
Print Assumptions C16_stamp_is_a_tick_time.

(* A set_value that changes the value stamps it with the engine time of the tick in which it happens. *)
Theorem C16_change_stamped_with_tick_time : forall s i v,
  (i < n_tags s)%nat -> v <> t_val (get s i) ->
  let s' := step s (OSet i v (now s)) in t_val (get s' i) = v /\ t_stamp (get s' i) = now s'.
Proof. exact set_stamped_now. Qed.
Print Assumptions C16_change_stamped_with_tick_time.

(* The hypothesis stamps_ok is a statement about call sites.  The table of ALL stamping call sites,
   regenerated from the source on every run, with the expression passed as time stamp classified. *)
Definition site_uses_tick_time (s : string * stamp_kind) : bool :=
  match snd s with TickTime | PassThrough => true | _ => false end.

Definition C16_sites_statement : Prop := forallb site_uses_tick_time stamp_sites = true.

(* FALSE on the current tree: nine sites stamp with the wall clock (known findings, listed one by one). *)
Definition known_wall_clock_sites : list string := [
  "engine/hardware_recovery.py:ErrorRecoveryDecorator._update_connection_status:set_value#0";
  "lang/exec/tags_impl.py:MarkTag.archive:set_value#0";
  "lang/exec/tags_impl.py:AccumulatorTag.reset:set_value#0";
  "lang/exec/tags_impl.py:BlockTimeTag.on_start:set_value#0";
  "lang/exec/tags_impl.py:ScopeTimeTag.on_start:set_value#0";
  "lang/exec/tags_impl.py:AccumulatedColumnVolume.reset:set_value#0";
  "lang/exec/tags_impl.py:DerivedTag._set_calculated_value:set_value#0";
  "lang/exec/tags_impl.py:DerivedTag._set_calculated_value:simulate_value#0";
  "lang/exec/tags_impl.py:DerivedTag.stop_simulation:simulate_value#0"]%string.

Theorem C16_sites_refuted : ~ C16_sites_statement.
Proof. unfold C16_sites_statement. vm_compute. discriminate. Qed.
Print Assumptions C16_sites_refuted.

(* Every OTHER site passes the tick time (or forwards its caller's stamp); the known sites are wall-clock
   sites and nothing else (no tick number, no stale stamp). *)
Theorem C16_sites_partial :
  forallb (fun s => site_uses_tick_time s
                    || (existsb (String.eqb (fst s)) known_wall_clock_sites
                        && match snd s with WallClock => true | _ => false end)) stamp_sites = true.
Proof. vm_compute. reflexivity. Qed.
Print Assumptions C16_sites_partial.

(* Stamping with anything else than the tick time is what the monitor on implementation traces catches. *)
Theorem C16_monitor_catches_tick_number :
  c16_holds_b ([(1, 0, false, 0)], [OTick 4000; OSet 0 2 3; ONotify; OCollect false])
              (run ([(1, 0, false, 0)], [OTick 4000; OSet 0 2 3; ONotify; OCollect false])) = false.
Proof. exact tick_number_stamp_caught. Qed.
Print Assumptions C16_monitor_catches_tick_number.

Example C16_nonvacuous :
  let ts := [{| t_val := 1; t_sim := 0; t_simd := false; t_stamp := 0 |}] in
  let ops := [OTick 10; OSet 0 2 10; ONotify; OCollect false; OTick 12; OSet 0 2 12; OSet 0 3 12; ONotify; OCollect false] in
  stamps_ok 0 ops = true /\ bounded (init ts) /\
  run ([(1, 0, false, 0)], ops) = [([(0%nat, 2, 10)], [2]); ([(0%nat, 3, 12)], [3])] /\
  c16_holds_b ([(1, 0, false, 0)], ops) (run ([(1, 0, false, 0)], ops)) = true.
Proof.
  split; [reflexivity|split; [|split; vm_compute; reflexivity]].
  intros i. unfold get. cbn. destruct i as [|[|i]]; cbn; lia.
Qed.
