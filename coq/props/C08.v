(* C08 Outputs with a safe value are safe whenever no run is progressing. Statements only. *)
From Coq Require Import ZArith List Bool Arith.
From OP Require Import lib.Obs model.Eng model.EngRun model.C08 proofs.Eng_prims proofs.C08_proofs.
Import ListNotations.
Open Scope Z_scope.

(* The full property is the STRICT discipline (mon8 true): at the hardware write boundary
     - every image written while no run is active carries the safe value on every output that has one,
     - during a pause (begun by Pause OR by an error) every image carries the safe value on every such output except
       those the USER assigned since the pause began,
   and the hardware memory holds safe values from engine start to the first run and after every Stop.
   It is REFUTED for the faithful model (two witnesses below: a method-started UOD command that keeps assigning an
   output while the run is paused; an error pause, which applies no safe state) -- known findings. *)

(* What holds, for EVERY state reachable by ANY operation sequence (faults included): the event trace obeys the
   discipline in which ANY assignment exempts an output during a pause and error pauses are not covered, and
     - whenever the last image was written while no run was active (engine start, or a Stop whose write reached the
       hardware) the hardware memory holds the safe value on every output that has one;
     - during a Pause-begun pause every output with a safe value that nothing assigned since the pause began holds it
       in its tag, and on the hardware as soon as an image has been written;
     - the engine writes to the hardware only while started, or at engine start / Stop with safe values. *)
Theorem C08_safe_outputs_partial : forall safe overlaps n outs0 ops,
  let e := fold_left (fun e o => fst (step safe overlaps e o)) ops (boot safe (init n outs0)) in
  exists s, mon8 false safe st_boot (trace e) = Some s
    /\ (started e = true -> active s = true)
    /\ (idle_ok s = true -> safe_hw 0 [] safe (hw e) = true)
    /\ (forall ex w, pausing s = Some (ex, w) -> safe_vals 0 ex safe (outs e) = true)
    /\ (forall ex, pausing s = Some (ex, true) -> safe_hw 0 ex safe (hw e) = true).
Proof.
  intros safe overlaps n outs0 ops e. destruct (Q8_reachable safe overlaps n outs0 ops) as [s [M [A B C D F]]].
  exists s. repeat split; assumption.
Qed.
Print Assumptions C08_safe_outputs_partial.

(* engine start: the hardware holds the safe values before any operation *)
Theorem C08_safe_from_engine_start : forall safe n outs0,
  safe_hw 0 [] safe (hw (boot safe (init n outs0))) = true.
Proof.
  intros safe n outs0. destruct (Q8_boot safe n outs0) as [s [M [A B C D F]]].
  apply D. unfold boot in M. cbv zeta in M. cbn [emit set_io trace] in M.
  destruct (apply_safe_facts safe (init n outs0)) as [T1 [_ [_ [_ [_ L1]]]]]. rewrite T1 in M.
  cbn [init trace app mon8 ev8 st_boot active negb] in M. rewrite (L1 []) in M. inversion M. reflexivity.
Qed.
Print Assumptions C08_safe_from_engine_start.

(* the safe state really is safe: after _apply_safe_state every output with a safe value holds it *)
Theorem C08_apply_safe_state_is_safe : forall safe outs,
  safe_vals 0 [] safe (snd (safe_from 0 safe outs)) = true.
Proof. intros safe outs. apply safe_after_apply. Qed.
Print Assumptions C08_apply_safe_state_is_safe.

Definition rq (id : nat) (n : cname) (scr : uscript) (user : bool) : request :=
  {| r_id := id; r_name := n; r_dur := None; r_scr := scr; r_user := user; r_cancellable := negb user; r_tracked := true |}.
Definition nos := {| u_dur := 0%nat; u_fail := None; u_out := None |}.
Definition tk (rs : list request) (rok wok : bool) :=
  OTick {| t_time := 1; t_dt := 1; t_read_ok := rok; t_write_ok := wok; t_interp := rs; t_interp_raises := false |}.
Definition trace_of (ops : list op) :=
  trace (fold_left (fun e o => fst (step [Some 0] [] e o)) ops (boot [Some 0] (init 1 [3]))).

(* known finding 1: a UOD command started by the method keeps assigning Out (safe value 0) while the run is paused *)
Definition w_method_uod : list op :=
  [OUser (rq 0 (CI Start) nos true) Start; tk [] true true; tk [] true true;
   tk [rq 1 (CU 0) {| u_dur := 5%nat; u_fail := None; u_out := Some (0%nat, 7) |} false] true true;
   tk [] true true; OUser (rq 2 (CI Pause) nos true) Pause; tk [] true true; tk [] true true].
(* known finding 2: a hardware read error pauses the run; the outputs keep their running values *)
Definition w_error_pause : list op :=
  [OUser (rq 0 (CI Start) nos true) Start; tk [] true true; tk [] true true; OSetOut 0 9; tk [] false true; tk [] true true].

Theorem C08_strict_refuted :
  mon8 true [Some 0] st_boot (trace_of w_method_uod) = None /\ mon8 true [Some 0] st_boot (trace_of w_error_pause) = None.
Proof. vm_compute. split; reflexivity. Qed.
Print Assumptions C08_strict_refuted.

(* non-vacuity: the partial discipline accepts both, with a pause in progress / a run active *)
Example C08_nonvacuous :
  (exists ex, option_map pausing (mon8 false [Some 0] st_boot (trace_of w_method_uod)) = Some (Some (ex, true)))
  /\ option_map active (mon8 false [Some 0] st_boot (trace_of w_error_pause)) = Some true.
Proof. split; [eexists|]; vm_compute; reflexivity. Qed.
