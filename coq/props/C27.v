(* C27 Engine messages survive disconnects without loss or duplication. Statements only. *)
From Coq Require Import ZArith List Bool Arith.
From OP Require Import lib.Obs model.C27 proofs.C27_proofs.
Import ListNotations.
Open Scope Z_scope.

(* In EVERY state of the recovery state machine reachable by ANY sequence of posts, buffer-loop messages and ticks under
   ANY pattern of connect / transmission failures:
     - a transmission is only attempted with an engine id (no ProtocolException escapes),
     - nothing is stranded: in the Connected and Reconnected states the buffer is empty,
     - every buffered message carries its sequence number,
     - the buffer loop is never alive in a steady state. *)
Theorem C27_reachable_states : forall ops,
  let r := fold_left step ops init in
  (has_id (st r) = true -> eid r = true) /\ (steady (st r) = true -> buf r = []) /\ crashed r = false /\
  Forall (fun m => exists k, mseq m = Some k /\ (k <= seqn r)%nat) (buf r) /\ (tk r = TBuf -> steady (st r) = false).
Proof.
  intros ops r. destruct (Good_reachable ops) as [[A A0 B C D] J]. repeat split; assumption.
Qed.
Print Assumptions C27_reachable_states.

(* No loss: a message the runner accepts (posted in any state but Started / Stopped, or produced by the live buffer
   loop) is, when that operation ends, transmitted or in the buffer; and a buffered message is, after ANY further
   operation, transmitted in that operation or still in the buffer. By induction every accepted message is transmitted
   at some point or still buffered -- and by the previous theorem the buffer is empty once the runner reports
   Reconnected. *)
Theorem C27_accepted_message_not_lost : forall ops l run k rs,
  let r := fold_left step ops init in
  up (st r) = true -> lab_in l (step r (OPost l run k rs)).
Proof. intros ops l run k rs r U. apply accepted_not_lost; [apply Good_reachable|exact U]. Qed.
Print Assumptions C27_accepted_message_not_lost.

Theorem C27_loop_message_not_lost : forall ops l run k,
  let r := fold_left step ops init in tk r = TBuf -> lab_in l (step r (OBuf l run k)).
Proof. intros ops l run k r T. apply buffered_by_loop_not_lost; [apply Good_reachable|exact T]. Qed.
Print Assumptions C27_loop_message_not_lost.

Theorem C27_buffered_message_not_lost : forall ops o m,
  let r := fold_left step ops init in In m (buf r) -> lab_in (label m) (step r o).
Proof. intros ops o m r H. apply buffered_stays_or_goes_out; [apply Good_reachable|exact H]. Qed.
Print Assumptions C27_buffered_message_not_lost.

(* The ORDER clause (run data buffered for a run reaches the aggregator before that run's stop notification) is REFUTED
   for the faithful model: while CatchingUp a newly posted message is transmitted at once although older messages are
   still buffered. Known finding; the same sequence fails on the real EngineRunner. *)
Definition w_order : list op :=
  [OTick []; OPost 1 0 KData [Lost]; OTick []; OTick []; OTick []; OPost 2 0 KStop []; OTick []; OTick []].
Theorem C27_order_refuted : holds_with true w_order (run w_order) = false /\ holds_with false w_order (run w_order) = true.
Proof. vm_compute. split; reflexivity. Qed.
Print Assumptions C27_order_refuted.

(* PARTIAL: proved are the safety invariants and step-wise no-loss above; "delivered more than once only after a failed
   attempt", "one sequence number across resends" and "distinct messages, distinct numbers" are clauses of the Coq monitor
   evaluated on the real runner's transmissions (and on the model through the correspondence), not separate theorems. *)
