(* C29 Plot-log persistence is monotone, throttled and faithful. Statements only. *)
From Coq Require Import ZArith List Bool Arith.
From OP Require Import lib.Obs model.C29 proofs.C29_proofs.
Import ListNotations.
Open Scope Z_scope.

(* For EVERY stream of tag-update messages (any order, duplicates, tags appearing late) and every
   non-negative data-log interval, the rows recorded for the run satisfy, in every reachable state:
   - spaced: any two recorded rows have the same time (one persisted batch) or the later one is
     more than `interval` after the earlier one  => strictly increasing batch times, at most one
     batch per interval;
   - never_older: for one tag, the engine time of a recorded value is greater than that of every
     value recorded before;
   - faithful: every recorded (tag, value) was reported by the engine with an engine time <= the
     recorded time. *)
Theorem C29_invariant : forall interval entries msgs,
  interval_ok interval ->
  Inv (ival interval) (concat msgs) (run_msgs interval entries msgs).
Proof. exact reachable. Qed.
Print Assumptions C29_invariant.

Theorem C29_strictly_increasing_and_throttled : forall interval entries msgs,
  interval_ok interval -> spaced (ival interval) (rows (run_msgs interval entries msgs)).
Proof. intros interval entries msgs H. exact (i_spaced _ _ _ (reachable interval entries msgs H)). Qed.
Print Assumptions C29_strictly_increasing_and_throttled.

Theorem C29_never_older : forall interval entries msgs,
  interval_ok interval -> never_older (rows (run_msgs interval entries msgs)).
Proof. intros interval entries msgs H. exact (i_older _ _ _ (reachable interval entries msgs H)). Qed.
Print Assumptions C29_never_older.

Theorem C29_faithful : forall interval entries msgs,
  interval_ok interval ->
  Forall (fun w => w_engine_time w <= w_time w /\
            In {| r_name := w_name w; r_val := w_val w; r_time := w_engine_time w |} (concat msgs))
         (rows (run_msgs interval entries msgs)).
Proof. intros interval entries msgs H. exact (i_faithful _ _ _ (reachable interval entries msgs H)). Qed.
Print Assumptions C29_faithful.

(* With the default (infinite) interval nothing is recorded after the first batch. *)
Theorem C29_infinite_interval_one_batch : forall entries s,
  lp s <> None -> persist None entries s = s.
Proof. exact inf_one_batch. Qed.
Print Assumptions C29_infinite_interval_one_batch.

Example C29_nonvacuous :
  run (Some 1, [0; 1]%nat,
       [[(0%nat, 10, 0); (1%nat, 20, 0)]; [(0%nat, 11, 1)]; [(0%nat, 12, 2); (2%nat, 5, 2)]; [(1%nat, 21, 1)];
        [(1%nat, 22, 5); (0%nat, 9, 1)]])
  = ([(0%nat, 10, 0); (1%nat, 20, 0); (0%nat, 12, 2); (1%nat, 22, 5)], false).
Proof. vm_compute. reflexivity. Qed.
