(* C37 Active-user list tracks live connections. Statements only. *)
From Coq Require Import List Bool Arith.
From OP Require Import lib.Obs model.C37 proofs.C37_proofs.
Import ListNotations.

(* In every state reachable by a history in which users register while connected (the
   frontend's protocol; `valid`), every listed user has a live connection -- for ANY number of
   earlier connects and disconnects. *)
Theorem C37_listed_implies_live : forall os s,
  Fun (switches s) -> Inv s -> valid (switches s) os = true -> Inv (final s os).
Proof. exact reachable_inv. Qed.
Print Assumptions C37_listed_implies_live.

(* When a user's last connection closes they are removed from every unit. *)
Theorem C37_last_disconnect_removes_everywhere : forall s c u,
  get_switch c (switches s) = Some u ->
  live u (filter (fun e => negb (Nat.eqb (fst e) c)) (switches s)) = false ->
  forall l, In l (active (fst (step s (Disc c)))) -> has_user u l = false.
Proof. exact last_disconnect_removes. Qed.
Print Assumptions C37_last_disconnect_removes_everywhere.

Theorem C37_monitor_sound : forall i, holds_b i (run i) = true.
Proof. exact model_satisfies_monitor. Qed.
Print Assumptions C37_monitor_sound.

(* Non-vacuity and regression witness: the second connect/disconnect of the same user (stayed
   active before the fix), and an unknown connection (raised KeyError before the fix). *)
Example C37_nonvacuous :
  let os := [Sub 0 7; Reg 0 7; Disc 0; Sub 1 7; Reg 0 7; Reg 1 7; Disc 2; Disc 1] in
  valid [] os = true /\
  run (2, os) = [(true, [[]; []]); (true, [[7]; []]); (true, [[]; []]); (true, [[]; []]);
                 (true, [[7]; []]); (true, [[7]; [7]]); (true, [[7]; [7]]); (true, [[]; []])].
Proof. vm_compute. split; reflexivity. Qed.
