(* C26 Protocol messages round-trip through JSON. Statements only. *)
From Coq Require Import ZArith List Bool Arith.
From OP Require Import lib.Obs model.C26 proofs.C26_proofs gen.MsgSchema.
Import ListNotations.

(* The codec, for EVERY type and EVERY value: a value that is well-typed and clean for its annotation (check: finite
   floats, string dict keys, unions of distinct scalar kinds, no `T | None` whose T already admits None) is decoded from its
   encoding to exactly itself -- scalars, enums / literals, optionals, smart unions, lists, sets, string-keyed dicts and
   nested models of any depth and size. *)
Theorem C26_value_roundtrip : forall t v, wf t = true -> check t v = true -> decode t (encode v) = Some v.
Proof. exact roundtrip. Qed.
Print Assumptions C26_value_roundtrip.

(* The envelope, for every registry: a message of a registered class, serialized with _type / _ns and handed to
   deserialize, comes back as the same class with the same field values. *)
Theorem C26_message_roundtrip : forall reg c fs v,
  c_ty c = TModel fs -> wf (TModel fs) = true -> check (TModel fs) v = true ->
  existsb (Nat.eqb K_type) (map fst fs) = false -> existsb (Nat.eqb K_ns) (map fst fs) = false ->
  find (fun c' => Nat.eqb (c_ns c') (c_ns c) && Nat.eqb (c_name c') (c_name c)) reg = Some c ->
  deserialize reg (serialize c v) = Some (c_ns c, c_name c, v).
Proof. exact envelope_roundtrip. Qed.
Print Assumptions C26_message_roundtrip.

(* Input that names an unknown message type or namespace, or lacks _type / _ns, is rejected as a protocol error. *)
Theorem C26_unknown_class_rejected : forall reg l n ns,
  lookup (SId K_type) l = Some (JStr (SId n)) -> lookup (SId K_ns) l = Some (JStr (SId ns)) ->
  find (fun c => Nat.eqb (c_ns c) ns && Nat.eqb (c_name c) n) reg = None ->
  deserialize reg (JObj l) = None.
Proof. exact unknown_class_rejected. Qed.
Print Assumptions C26_unknown_class_rejected.
Theorem C26_missing_type_rejected : forall reg l, lookup (SId K_type) l = None -> deserialize reg (JObj l) = None.
Proof. exact missing_type_rejected. Qed.
Theorem C26_missing_ns_rejected : forall reg l, lookup (SId K_ns) l = None -> deserialize reg (JObj l) = None.
Proof. exact missing_ns_rejected. Qed.

(* The side conditions hold of the message classes of the CURRENT source (gen/MsgSchema.v is regenerated on every run):
   every registered class is a model whose annotations are well-formed, no field is called _type or _ns, and the class is
   the one its own (_ns, _type) pair finds in the registry. Hence C26_message_roundtrip applies to every registered class
   and every clean value of it. *)
Definition class_ok (c : cls) : bool :=
  match c_ty c with
  | TModel fs => wf (TModel fs) && negb (existsb (Nat.eqb K_type) (map fst fs)) && negb (existsb (Nat.eqb K_ns) (map fst fs))
  | _ => false
  end.
Definition finds_itself (c : cls) : bool :=
  match find (fun c' => Nat.eqb (c_ns c') (c_ns c) && Nat.eqb (c_name c') (c_name c)) registry with
  | Some c' => Nat.eqb (c_ns c') (c_ns c) && Nat.eqb (c_name c') (c_name c)
               && match c_ty c', c_ty c with TModel a, TModel b => Nat.eqb (length a) (length b) | _, _ => false end
  | None => false
  end.
Theorem C26_registry_side_conditions : forallb (fun c => class_ok c && finds_itself c) registry = true.
Proof. vm_compute. reflexivity. Qed.
Print Assumptions C26_registry_side_conditions.

(* REFUTED at full strength -- "with any field values" (known findings, Coq-evaluated witnesses on the model; the same
   values fail on the real wire path):
   (1) a non-finite float is written as null: a tag value inf comes back as None; a float field then fails validation *)
Example C26_nonfinite_float_refuted :
  decode (TUnion [TFloat; TInt; TStr; TNull]) (encode (PFloat FInf)) = Some PNone
  /\ decode TFloat (encode (PFloat FNaN)) = None.
Proof. split; reflexivity. Qed.
(* (2) JSON object keys are strings: the int key 1 of a dict[str | int | float, str] comes back as the string "1" *)
Example C26_numeric_dict_key_refuted :
  decode (TDict (TUnion [TStr; TInt; TFloat]) TStr) (encode (PDict [(PInt 1, PStr (SId 7))]))
  = Some (PDict [(PStr (SOfInt 1), PStr (SId 7))]).
Proof. reflexivity. Qed.

(* MODELLED, NOT VERIFIED: strings and finite floats are opaque (their JSON text is assumed to round-trip exactly: Python's
   repr / json.loads); pydantic's validation is modelled for the JSON shapes the encoder produces (lax coercions such as
   "5" -> 5 are not modelled); the reply path (json.dumps) carries no floats or sets and is not modelled separately. *)
