(* C13 Engine ticks never crash; method errors pause the run. Engine-core part. Statements only. *)
From Coq Require Import ZArith List Bool Arith.
From OP Require Import lib.Obs model.Eng model.EngRun model.C13 proofs.Eng_prims proofs.C13_proofs.
Import ListNotations.
Open Scope Z_scope.

(* PARTIAL: the property quantifies over method texts; the engine-core model takes the interpreter as an input (the
   requests it issues per tick and whether its tick raised). What is proved is the engine's side of the contract: every
   failure that reaches the engine -- an exception out of interpreter.tick, out of the command manager (failing UOD
   command, tracking error), a hardware read or write error -- is routed to set_error_state inside the tick (the model's
   tick is total; the tie to the code's try/except structure is the correspondence, in which the driver records any
   exception that escapes Engine.tick as ECrash, an event the model never emits), and set_error_state pauses the run with
   Method Status Error. *)

Theorem C13_error_state : forall e,
  let e' := set_error_state e in
  paused e' = true /\ m_err e' = true /\ last_err e' = true /\ sys e' = Paused /\ started e' = started e
  /\ trace e' = trace e ++ [EError].
Proof. exact error_state_law. Qed.
Print Assumptions C13_error_state.

(* an interpreter error in a tick in which the interpreter runs: the tick's events contain the error-state transition,
   whatever else happens in that tick (commands, faults) *)
Theorem C13_interpreter_error_reaches_error_state : forall safe overlaps e i,
  interp_runs (if t_read_ok i then set_now e (t_time i) (t_write_ok i)
               else if last_err (set_now e (t_time i) (t_write_ok i)) then set_now e (t_time i) (t_write_ok i)
                    else set_error_state (set_now e (t_time i) (t_write_ok i))) = true ->
  t_interp_raises i = true ->
  exists l1 l2, trace (tick safe overlaps e i) = trace e ++ l1 ++ [EError] ++ l2.
Proof. exact interp_error_routed. Qed.
Print Assumptions C13_interpreter_error_reaches_error_state.

(* the event trace of the engine only grows: nothing recorded is ever lost, in any execution *)
Theorem C13_trace_only_grows : forall safe overlaps ops e,
  exists l, trace (fold_left (fun e o => fst (step safe overlaps e o)) ops e) = trace e ++ l.
Proof.
  intros safe overlaps ops. induction ops as [|o ops IH]; intros e; cbn [fold_left]; [exists []; now rewrite app_nil_r|].
  destruct (star_trace safe _ _ (step_star safe overlaps e o)) as [l1 H1]. destruct (IH (fst (step safe overlaps e o))) as [l2 H2].
  exists (l1 ++ l2). now rewrite H2, H1, app_assoc.
Qed.
Print Assumptions C13_trace_only_grows.

(* responsive to Stop: Stop is accepted in the error state, and its second step ends the run (or, if the hardware write
   of that very step fails, leaves the engine in the error state with the run ended) *)
Theorem C13_stop_accepted_when_paused : forall e, sys e = Paused -> validate e Stop = true.
Proof. exact stop_valid_when_paused. Qed.
Print Assumptions C13_stop_accepted_when_paused.

Example C13_monitor_rejects :
  holds_b (IEng ({| c_safe := []; c_overlaps := []; c_outs0 := [] |}, [ONop]))
          (OEng [{| v_flags := [true; false; false; false; false; false; true]; v_sys := Running; v_run := Some 0%nat; v_prev := None;
              v_outs := []; v_hw := []; v_clocks := [0; 0; 0; 0]; v_reg := []; v_uods := []; v_exe := []; v_que := [];
              v_events := [ECrash] |}]) = false
  /\ holds_b (IEng ({| c_safe := []; c_overlaps := []; c_outs0 := [] |}, [ONop]))
          (OEng [{| v_flags := [true; false; false; false; false; false; true]; v_sys := Running; v_run := Some 0%nat; v_prev := None;
              v_outs := []; v_hw := []; v_clocks := [0; 0; 0; 0]; v_reg := []; v_uods := []; v_exe := []; v_que := [];
              v_events := [EError] |}]) = false.
Proof. split; vm_compute; reflexivity. Qed.
