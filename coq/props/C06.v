(* C06 Run state and System State always agree; control commands gated. Statements only. *)
From Coq Require Import ZArith List Bool Arith.
From OP Require Import lib.Obs model.Eng model.EngRun model.C06 proofs.Eng_state proofs.Eng_loop.
Import ListNotations.
Open Scope Z_scope.

(* The System State tag as a function of the run-state flags, and the run id, in EVERY state reachable from
   engine start by ANY sequence of fault-free operations: user control commands (any of them, any number of times
   between two ticks, valid or not), user UOD commands, output changes, and ticks with arbitrary time increments in
   which the interpreter issues arbitrary commands (Pause, Hold, Stop, Restart, UOD commands ...).
     Stopped  <-> no run is active;  Paused -> active and paused;  Holding -> active, on hold, not paused;
     Running  -> active, neither;    Restarting -> active and a Restart command is executing;
     run id = None <-> no run is active.
   Partial in one respect: Pause and Hold carry no duration (op_ok requires r_dur = None); timed Pause/Hold are
   covered by the correspondence and the monitor only. *)
Theorem C06_state_function_partial : forall safe overlaps n outs0 ops,
  Forall op_ok ops ->
  state_function (fold_left (fun e o => fst (step safe overlaps e o)) ops (boot safe (init n outs0))).
Proof.
  intros safe overlaps n outs0 ops H. apply Inv_state_function. apply (g_inv _ (reachable_G safe overlaps n outs0 ops H)).
Qed.
Print Assumptions C06_state_function_partial.

(* Gating: a user control command is scheduled iff it is valid in the state at the time of the request, where
   validity is the property's reading of the state (System State, paused, holding) -- by definition of the model's
   step, which the correspondence ties to Engine._validate_control_command. *)
Theorem C06_gate : forall safe overlaps e r n,
  snd (step safe overlaps e (OUser r n)) = valid_in (view_of e true 0) n /\
  (valid_in (view_of e true 0) n = false -> fst (step safe overlaps e (OUser r n)) = e).
Proof.
  intros safe overlaps e r n. cbn [step]. assert (V : validate e n = valid_in (view_of e true 0) n) by (destruct n; reflexivity).
  rewrite <- V. destruct (validate e n); split; auto; discriminate.
Qed.
Print Assumptions C06_gate.

(* Run ids: in every reachable state the current run id is below the counter that hands out the next one, i.e. a new
   run always gets an id that was never used before. *)
Theorem C06_run_id_fresh : forall safe overlaps n outs0 ops,
  Forall op_ok ops ->
  let e := fold_left (fun e o => fst (step safe overlaps e o)) ops (boot safe (init n outs0)) in
  forall r, run_id e = Some r -> (r < next_run e)%nat.
Proof.
  intros safe overlaps n outs0 ops H e. apply (inv_run e (g_inv _ (reachable_G safe overlaps n outs0 ops H))).
Qed.
Print Assumptions C06_run_id_fresh.

(* the fix is needed: without dropping Pause/Hold requests once the run has ended, two Stop requests and a Hold made
   between two ticks leave the engine Holding with no run (the pre-fix behaviour, as a model variant, is exercised by
   the monitor on implementation traces; the witness sequence is in the corpus) *)
Example C06_nonvacuous :
  let ops := [OUser {| r_id := 0; r_name := CI Start; r_dur := None; r_scr := {| u_dur := 0; u_fail := None; u_out := None |};
                       r_user := true; r_cancellable := false; r_tracked := false |} Start;
              OTick {| t_time := 1; t_dt := 1; t_read_ok := true; t_write_ok := true; t_interp := []; t_interp_raises := false |};
              OUser {| r_id := 1; r_name := CI Stop; r_dur := None; r_scr := {| u_dur := 0; u_fail := None; u_out := None |};
                       r_user := true; r_cancellable := false; r_tracked := true |} Stop;
              OUser {| r_id := 2; r_name := CI Stop; r_dur := None; r_scr := {| u_dur := 0; u_fail := None; u_out := None |};
                       r_user := true; r_cancellable := false; r_tracked := true |} Stop;
              OUser {| r_id := 3; r_name := CI Hold; r_dur := None; r_scr := {| u_dur := 0; u_fail := None; u_out := None |};
                       r_user := true; r_cancellable := false; r_tracked := true |} Hold;
              OTick {| t_time := 2; t_dt := 1; t_read_ok := true; t_write_ok := true; t_interp := []; t_interp_raises := false |}] in
  Forall op_ok ops /\
  let e := fold_left (fun e o => fst (step [Some 0] [] e o)) ops (boot [Some 0] (init 1 [3])) in
  sys e = Stopped /\ started e = false /\ holding e = false /\ run_id e = None /\ next_run e = 1%nat.
Proof.
  split.
  - repeat constructor; try discriminate.
  - vm_compute. repeat split.
Qed.
