(* C23 Hardware connection recovery follows the documented protocol. Statements only. *)
From Coq Require Import ZArith List Bool Arith.
From OP Require Import lib.Obs gen.RecoveryConst model.Recovery proofs.Recovery_proofs.
Import ListNotations.
Open Scope Z_scope.

(* Every step keeps the state or takes one of the seven documented edges, each under its
   documented condition (error in OK; success in Issue; error in Issue after reconnect_timeout;
   error in Reconnect after error_timeout; reconnect success on a back-off tick; connect). *)
Theorem C23_edges : forall s o, edge s o (state (fst (step s o))).
Proof. exact step_edge. Qed.
Print Assumptions C23_edges.

(* In every reachable state Connection Status reads Disconnected exactly in Disconnected/Error. *)
Theorem C23_status_tag : forall os c,
  let s := final (init c) os in
  tag_connected s = negb (in_states (state s) status_disconnected_states).
Proof. intros os c. exact (reachable_tag os (init c) (init_tag c)). Qed.
Print Assumptions C23_status_tag.

Theorem C23_status_states : status_disconnected_states = [SDisconnected; SError].
Proof. reflexivity. Qed.
Print Assumptions C23_status_states.

(* Reads and writes never raise in OK, Issue or Reconnect ... *)
Theorem C23_masked : forall s o,
  is_rw o = true -> unusable s = false -> snd (step s o) <> RRaise.
Proof. exact rw_never_raises_when_usable. Qed.
Print Assumptions C23_masked.

(* ... where a masked read returns the last-known-good table unchanged ... *)
Theorem C23_masked_read_values : forall s rs hw,
  unusable s = false -> (state s = SReconnect \/ hw = None) ->
  snd (do_read s rs hw) = RVals (map (aget (lkg s)) rs) /\ lkg (fst (do_read s rs hw)) = lkg s.
Proof. exact masked_read_values. Qed.
Print Assumptions C23_masked_read_values.

(* ... and that table is changed only by successful hardware reads, to exactly the values read. *)
Theorem C23_lkg_only_good_reads : forall s o,
  lkg (fst (step s o)) =
  match o with
  | Read r (Some v) =>
      if unusable s then lkg s else match state s with SReconnect => lkg s | _ => set_all (lkg s) [(v, r)] end
  | ReadBatch rs (Some vs) =>
      if unusable s then lkg s else match state s with SReconnect => lkg s | _ => set_all (lkg s) (combine vs rs) end
  | _ => lkg s
  end.
Proof. exact lkg_only_good_reads. Qed.
Print Assumptions C23_lkg_only_good_reads.

(* They do raise, and change nothing, in Disconnected and Error. *)
Theorem C23_error_raises : forall s o,
  is_rw o = true -> unusable s = true -> step s o = (s, RRaise).
Proof. exact rw_raises_when_unusable. Qed.
Print Assumptions C23_error_raises.

(* Non-vacuity: a run through OK -> Issue -> Reconnect -> Error -> OK. *)
Example C23_nonvacuous :
  map (fun x => snd (fst x))
    (fst (run_ops (init true)
      [Read 0%nat (Some 7); Read 0%nat None; Advance 11; Read 0%nat None; Advance 18001; Read 0%nat None;
       Read 0%nat (Some 1); Tick true; Tick true; Tick true; Tick true; Tick true; Tick true; Read 0%nat (Some 9)]))
  = [SOK; SIssue; SIssue; SReconnect; SReconnect; SError; SError; SError; SError; SError; SError; SError; SOK; SOK].
Proof. vm_compute. reflexivity. Qed.
