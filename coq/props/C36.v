(* C36 Every changed tag is reported with its latest value. Statements only. *)
From Coq Require Import ZArith List Bool String.
From OP Require Import lib.Obs model.Tags proofs.Tags_proofs gen.Sites.
Import ListNotations.
Open Scope Z_scope.

(* Completeness: after ANY sequence of tag writes, engine notify steps and reports in which every write
   goes through a notifying method (no raw assignment) and simulated values are not None, every tag
   whose visible value differs from the value last reported is in the next report, with its current
   value (and stamp). *)
Theorem C36_complete : forall ts ops i,
  wf_tags ts -> forallb disciplined ops = true ->
  let s := exec ts ops in
  (i < n_tags s)%nat -> visible (get s i) <> nth i (rep s) 0 ->
  In (i, visible (get s i), t_stamp (get s i)) (r_entries (next_report s false)).
Proof. exact report_complete. Qed.
Print Assumptions C36_complete.

(* Whatever a report lists is the tag's value at that moment. *)
Theorem C36_latest_value : forall s snap i v stp,
  In (i, v, stp) (r_entries (next_report s snap)) -> v = visible (get s i) /\ stp = t_stamp (get s i).
Proof. exact report_values_current. Qed.
Print Assumptions C36_latest_value.

(* No tag twice in a report -- in ANY state, disciplined or not. *)
Theorem C36_no_duplicates : forall s snap, NoDup (map (fun e => fst (fst e)) (r_entries (next_report s snap))).
Proof. exact report_nodup. Qed.
Print Assumptions C36_no_duplicates.

(* A snapshot lists every tag -- in ANY state. *)
Theorem C36_snapshot_all : forall s i, (i < n_tags s)%nat ->
  In (i, visible (get s i), t_stamp (get s i)) (r_entries (next_report s true)).
Proof. exact snapshot_all. Qed.
Print Assumptions C36_snapshot_all.

(* The hypothesis of C36_complete is what the source guarantees: the table of raw assignments to a
   tag's value fields outside Tag's notifying methods, regenerated from the source on every run, is empty. *)
Theorem C36_sites_ok : raw_sites = [].
Proof. reflexivity. Qed.
Print Assumptions C36_sites_ok.

(* With one raw assignment (Block Time / Scope Time as they were) the statement is false. *)
Theorem C36_raw_assignment_refutes :
  let s := exec raw_witness_tags raw_witness_ops in
  visible (get s 0) <> nth 0 (rep s) 0 /\ r_entries (next_report s false) = [].
Proof. exact raw_assignment_unreported. Qed.
Print Assumptions C36_raw_assignment_refutes.

Example C36_nonvacuous :
  let ts := [{| t_val := 1; t_sim := 0; t_simd := false; t_stamp := 0 |}; {| t_val := 5; t_sim := 0; t_simd := false; t_stamp := 0 |}] in
  let ops := [OTick 10; OSet 0 2 10; OSim 1 7 10; ONotify; OCollect false; OTick 11; OStopSim 1; OSet 0 3 11] in
  wf_tags ts /\ forallb disciplined ops = true /\
  r_entries (next_report (exec ts ops) false) = [(0%nat, 3, 11); (1%nat, 5, 10)].
Proof.
  split; [|split; vm_compute; reflexivity].
  intros t [<-|[<-|[]]]; reflexivity.
Qed.
