(* C33 Push notifications reach exactly the entitled subscribers. Statements only. *)
From Coq Require Import List Bool Arith.
From OP Require Import lib.Obs model.C33 proofs.C33_proofs gen.Topics proofs.C33_like.
Import ListNotations.

(* For ALL sets of preferences, subscriptions, roles, contributors, topics and units: a
   subscription is notified iff its user has a preference row selecting the topic whose recorded
   roles grant access to the unit and whose scope matches (all accessible units / units of runs
   they contributed to / listed units), and the notification is not about that very contributor. *)
Theorem C33_exactly_entitled : forall prefs subs t u c sid x,
  NoDup (map fst subs) -> In (sid, x) subs ->
  (In sid (publish prefs subs t u c) <-> entitled prefs t u c x = true).
Proof. exact publish_exact. Qed.
Print Assumptions C33_exactly_entitled.

Theorem C33_entitled_meaning : forall prefs t u x,
  In x (selected_users prefs t u) <->
  exists p, In p prefs /\ p_user p = x /\ mem t (p_topics p) = true
            /\ has_access (u_required u) (p_roles p) = true /\ scope_matches p u = true.
Proof. exact selected_spec. Qed.
Print Assumptions C33_entitled_meaning.

Theorem C33_at_most_once : forall prefs subs t u c,
  NoDup (map fst subs) -> NoDup (publish prefs subs t u c).
Proof. exact publish_at_most_once. Qed.
Print Assumptions C33_at_most_once.

Theorem C33_not_to_new_contributor : forall prefs subs u c sid,
  In (sid, c) subs -> NoDup (map fst subs) ->
  ~ In sid (publish prefs subs new_contributor_topic u (Some c)).
Proof. exact not_to_new_contributor. Qed.
Print Assumptions C33_not_to_new_contributor.

Theorem C33_only_subscriptions : forall prefs subs t u c sid,
  In sid (publish prefs subs t u c) -> In sid (map fst subs).
Proof. exact publish_subset. Qed.
Print Assumptions C33_only_subscriptions.

(* ties to the source: the index the model uses for NEW_CONTRIBUTOR is the enum's, and the SQL
   `topics.contains(topic)` (a LIKE on the JSON text) is membership on all lists of <= 3 topics *)
Theorem C33_new_contributor_index : new_contributor_topic = new_contributor_index.
Proof. reflexivity. Qed.
Print Assumptions C33_new_contributor_index.

Theorem C33_contains_is_membership_upto3 :
  forallb (fun t => forallb (check_one t) lists_upto3) idxs = true.
Proof. exact contains_is_membership_upto3. Qed.
Print Assumptions C33_contains_is_membership_upto3.

Example C33_nonvacuous :
  let prefs := [ {| p_user := 1; p_roles := [7]; p_scope := Access; p_topics := [0; 6]; p_units := [] |};
                 {| p_user := 2; p_roles := []; p_scope := Access; p_topics := [6]; p_units := [] |};
                 {| p_user := 3; p_roles := [7; 8]; p_scope := Contributed; p_topics := [6]; p_units := [] |};
                 {| p_user := 4; p_roles := [8]; p_scope := Specific; p_topics := [6]; p_units := [5] |} ] in
  let u := {| u_id := 5; u_required := [7; 8]; u_contributors := [Some 3; None] |} in
  publish prefs [(10, 1); (11, 1); (12, 2); (13, 3); (14, 4)] 6 u (Some 3) = [10; 11; 14]
  /\ publish prefs [(10, 1); (11, 1); (12, 2); (13, 3); (14, 4)] 0 u None = [10; 11].
Proof. vm_compute. split; reflexivity. Qed.
