(* C40 Requests from the aggregator apply atomically between ticks. Statements only. *)
From Coq Require Import List Bool Arith String.
From OP Require Import lib.Obs model.Ser proofs.Ser_proofs gen.Sites model.C40.
Import ListNotations.
Local Open Scope string_scope.
Local Open Scope list_scope.

(* For ANY number of threads, ANY sections made of ANY micro-steps on ANY state, and ANY schedule: if every
   section runs under the one lock, then once all threads are done the state is that of the SERIAL
   execution of the whole sections in the order they completed, and that order contains each thread's
   sections exactly, in program order.  (So a request takes effect entirely between two ticks, none is
   lost, none sees a half-updated state.) *)
Theorem C40_serialisable : forall (S : Type) (s0 : S) (progs : list (list (section S))) (sched : list nat),
  (forall p sec, In p progs -> In sec p -> locked sec = true) ->
  let c := Ser.run S s0 progs sched in
  finished S c = true ->
  state c = run_serial S s0 (map snd (hist c)) /\
  forall i p, nth_error progs i = Some p -> proj S i (hist c) = p.
Proof. exact serialisable. Qed.
Print Assumptions C40_serialisable.

(* The hypothesis is a statement about the source: every request entry point of Engine runs its whole
   body under self._lock, and so do the state-changing phases of Engine.tick.  Table regenerated from
   the AST of engine.py and engine_message_handlers.py on every run. *)
Theorem C40_sites_ok :
  forallb (fun e => snd (fst e)) entry_points = true /\ tick_body_locked = true.
Proof. split; reflexivity. Qed.
Print Assumptions C40_sites_ok.

Theorem C40_all_entry_points_listed :
  forallb (fun r => existsb (fun e => String.eqb (fst (fst e)) (req_name r)) entry_points)
          [RSetMethod; RInject; RControl; RCancel; RForce] = true.
Proof. reflexivity. Qed.
Print Assumptions C40_all_entry_points_listed.

(* Without the lock the statement is false (two read-modify-write sections), with it the same
   schedule is serial. *)
Theorem C40_unlocked_refuted :
  let c := Ser.run rmw_state (0, 0, 0) [[incr_a false]; [incr_b false]] [0; 1; 0; 1; 0; 1; 0; 1] in
  finished rmw_state c = true /\ fst (fst (state c)) = 1 /\
  fst (fst (run_serial rmw_state (0, 0, 0) [incr_a false; incr_b false])) = 2 /\
  fst (fst (run_serial rmw_state (0, 0, 0) [incr_b false; incr_a false])) = 2.
Proof. exact unlocked_not_serialisable. Qed.
Print Assumptions C40_unlocked_refuted.

Example C40_nonvacuous :
  let c := Ser.run rmw_state (0, 0, 0) [[incr_a true]; [incr_b true]] [0; 1; 0; 1; 0; 1; 0; 1; 1; 1; 1; 1] in
  finished rmw_state c = true /\ fst (fst (state c)) = 2.
Proof. exact locked_same_schedule. Qed.
