(* C28 A run survives engine reconnects and aggregator restarts. Statements only. *)
From Coq Require Import ZArith List Bool Arith.
From OP Require Import lib.Obs model.C29 model.Agg proofs.Agg_proofs.
Import ListNotations.
Open Scope Z_scope.

(* An engine that disconnects during run (r, t) and re-registers -- after ANY operations that do
   not involve it, aggregator restarts and even crashes included -- continues run r with start t. *)
Theorem C28_same_run_after_reconnect : forall interval entries s e r t os,
  run_of s e = Some (Some (r, t)) ->
  forallb (fun o => negb (touches e o)) os = true ->
  run_of (step interval entries (final interval entries (step interval entries s (Disconnect e)) os) (Register e)) e
  = Some (Some (r, t)).
Proof. exact same_run_after_reconnect. Qed.
Print Assumptions C28_same_run_after_reconnect.

(* A graceful aggregator restart (shutdown, new process over the same database) during a run. *)
Theorem C28_same_run_after_restart : forall interval entries s e r t os,
  NoDup (ids (engines s)) -> run_of s e = Some (Some (r, t)) ->
  forallb (fun o => negb (touches e o)) os = true ->
  run_of (step interval entries (final interval entries (step interval entries s Restart) os) (Register e)) e
  = Some (Some (r, t)).
Proof. exact same_run_after_restart. Qed.
Print Assumptions C28_same_run_after_restart.

(* Tag data accepted for the run is recorded in that run's plot log and nowhere else. *)
Theorem C28_tags_recorded_in_run : forall interval entries s e x c msg,
  find_engine s e = Some x -> e_run x = Some c ->
  exists new, plot_rows (data (step interval entries s (Tags e (Some (rd_id c)) msg))) = plot_rows (data s) ++ new
              /\ Forall (fun w => fst w = (e, rd_id c)) new.
Proof. exact tags_in_run. Qed.
Print Assumptions C28_tags_recorded_in_run.

(* Stored once: see C30 (same model). The unregistered engine's recorded run is stable. *)
Theorem C28_recorded_run_stable : forall interval entries os s e v,
  forallb (fun o => negb (touches e o)) os = true ->
  find_engine s e = None -> get_recent (recent_engines (data s)) e = Some v ->
  find_engine (final interval entries s os) e = None /\
  get_recent (recent_engines (data (final interval entries s os))) e = Some v.
Proof. exact untouched_steps. Qed.
Print Assumptions C28_recorded_run_stable.

(* Full-strength statement including a crash (no shutdown) of the aggregator during a run. *)
Definition C28_crash_statement : Prop :=
  forall interval entries s e r t,
  run_of s e = Some (Some (r, t)) ->
  run_of (step interval entries (step interval entries s Crash) (Register e)) e = Some (Some (r, t)).

(* FALSE of the faithful model: nothing was written to the database for the engine, so the run is
   not continued (known finding, replayed on the real aggregator). *)
Theorem C28_crash_refuted : ~ C28_crash_statement.
Proof.
  intros H.
  specialize (H None [] (final None [] init [Register 0%nat; RunStarted 0%nat 1 5]) 0%nat 1 5 eq_refl).
  vm_compute in H. discriminate.
Qed.
Print Assumptions C28_crash_refuted.

Example C28_nonvacuous :
  let s := final (Some 1) [0%nat] init [Register 0%nat; Register 1%nat; RunStarted 0%nat 7 3] in
  run_of s 0%nat = Some (Some (7, 3)) /\ NoDup (ids (engines s)) /\
  run_of (final (Some 1) [0%nat] s [Disconnect 0%nat; RunStarted 1%nat 8 4; Restart; Register 1%nat; Register 0%nat]) 0%nat
  = Some (Some (7, 3)).
Proof. vm_compute. repeat split; try reflexivity. repeat constructor; cbn; intuition discriminate. Qed.
