From OP Require Import model.C18.
