(* C18 Instruction lines decompose into exactly their parts. Statements only. *)
From Coq Require Import ZArith List Bool.
From OP Require Import lib.Obs gen.Grammar model.C18 proofs.C18_proofs.
Import ListNotations.
Open Scope Z_scope.

(* For ANY well-formed line -- indentation, optional threshold digits[.digits], a name that starts with
   a name character (not a digit when there is no threshold) and has no ':' or '#', an optional
   non-empty argument without '#', an optional comment -- the recogniser recovers exactly those parts
   (the name keeps the blank before a comment, the argument keeps the blank before a comment: that is
   what the regex groups capture and what _parse_line strips afterwards). *)
Theorem C18_line_roundtrip : forall i thr name arg comment,
  wf_line thr name arg comment ->
  split_line (render i thr name arg comment) = expected_line i (option_map thr_text thr) name arg comment.
Proof. exact split_line_roundtrip. Qed.
Print Assumptions C18_line_roundtrip.

(* 'tag operator value [unit]': for every operator spelling of the generated tables, every supported
   unit (regenerated from units.py) and a panel of tags (incl. inner space, non-ASCII) and numeric value
   shapes (sign, fraction, bare fraction, exponent), tag, operator, value and unit are recovered. The
   sweep is finite in tags and values: it is a proof about the generated operator and unit tables, and
   a test (not a theorem) in the tag and value dimensions -- labelled partial there. *)
Theorem C18_tov_roundtrip_partial : forall tag op v u,
  In tag sweep_tags -> In op condition_operators -> In v sweep_values ->
  match u with Some x => In x supported_units | None => True end ->
  tov_eqb (parse_tov condition_operators (render_tov tag op v u)) (expected_tov tag op v u) = true.
Proof. intros tag op v u. exact (tov_sweep_spec condition_operators tag op v u sweep_conditions). Qed.
Print Assumptions C18_tov_roundtrip_partial.

Theorem C18_assignment_roundtrip_partial : forall tag op v u,
  In tag sweep_tags -> In op assignment_operators -> In v sweep_values ->
  match u with Some x => In x supported_units | None => True end ->
  tov_eqb (parse_tov assignment_operators (render_tov tag op v u)) (expected_tov tag op v u) = true.
Proof. intros tag op v u. exact (tov_sweep_spec assignment_operators tag op v u sweep_assignments). Qed.
Print Assumptions C18_assignment_roundtrip_partial.

(* every character of every supported unit belongs to the unit class conditions use *)
Theorem C18_units_in_class : forallb (forallb is_unit_char) supported_units = true.
Proof. exact units_in_class. Qed.
Print Assumptions C18_units_in_class.

(* the monitor used on implementation output is satisfied by the model on every well-formed line *)
Theorem C18_monitor_sound_lines : forall i thr name arg comment, wf_line thr name arg comment ->
  holds_b (QLineWF i (option_map thr_text thr) name arg comment)
          (run (QLineWF i (option_map thr_text thr) name arg comment)) = true.
Proof. exact monitor_line. Qed.
Print Assumptions C18_monitor_sound_lines.

Example C18_nonvacuous :
  wf_line (Some ([49; 50], Some [53; 48])) [87; 97; 116; 99; 104] (Some [88; 32; 62; 32; 49]) (Some [99]) /\
  split_line (render 4 (Some ([49; 50], Some [53; 48])) [87; 97; 116; 99; 104] (Some [88; 32; 62; 32; 49]) (Some [99]))
  = PInst 4 (Some [49; 50; 46; 53; 48]) [87; 97; 116; 99; 104] (Some [88; 32; 62; 32; 49; 32]) true (Some [99]).
Proof. split; [|vm_compute; reflexivity]. constructor; vm_compute; intuition discriminate. Qed.
