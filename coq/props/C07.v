(* C07 Method clocks advance only while running. Statements only. *)
From Coq Require Import ZArith List Bool Arith.
From OP Require Import lib.Obs model.Eng model.EngRun model.C07 proofs.Eng_prims proofs.C07_proofs.
Import ListNotations.
Open Scope Z_scope.

(* In EVERY state reachable from engine start by ANY sequence of operations (all control commands valid or not, timed
   Pause/Hold, Stop, Restart, UOD commands, faults, interpreter errors, arbitrary increments) the event trace satisfies
   the clock discipline and the discipline's tracked values ARE the Process Time and Run Time tags:
     - both are 0 when a run starts (Start and Restart alike),
     - nothing but update_calculated_tags moves them during a run,
     - each update adds the increment to Process Time iff the System State is Running and to Run Time iff a run is
       active (not Stopped, not Restarting), and leaves Block Time and Scope Time unchanged unless the state is Running
       (so not while Paused, Holding, Restarting, nor in an error pause). *)
Theorem C07_clock_discipline : forall safe overlaps n outs0 ops,
  let e := fold_left (fun e o => fst (step safe overlaps e o)) ops (boot safe (init n outs0)) in
  mon7 (0, 0) (trace e) = Some (ptime e, rtime e).
Proof. intros safe overlaps n outs0 ops. exact (R7_reachable safe overlaps n outs0 ops). Qed.
Print Assumptions C07_clock_discipline.

(* the clauses one by one, for every engine state and increment *)
Theorem C07_process_time_only_running : forall e dt,
  ptime (update_clocks e dt) = if sys_eqb (sys e) Running then ptime e + dt else ptime e.
Proof. exact process_time_law. Qed.
Print Assumptions C07_process_time_only_running.

Theorem C07_run_time_only_active : forall e dt,
  rtime (update_clocks e dt) = if active (sys e) then rtime e + dt else rtime e.
Proof. exact run_time_law. Qed.
Print Assumptions C07_run_time_only_active.

Theorem C07_block_scope_only_running : forall e dt, sys e <> Running ->
  btime (update_clocks e dt) = btime e /\ stime (update_clocks e dt) = stime e.
Proof. exact block_scope_law. Qed.
Print Assumptions C07_block_scope_only_running.

Theorem C07_zero_at_start : forall e,
  (ptime (start_body e) = 0 /\ rtime (start_body e) = 0) /\ (ptime (restart_finish e) = 0 /\ rtime (restart_finish e) = 0).
Proof. intros e. split; [apply start_zero|apply restart_zero]. Qed.
Print Assumptions C07_zero_at_start.

(* never decreasing: an update that obeys the rule with a non-negative increment does not decrease either clock *)
Theorem C07_monotone : forall s dt b a, clock_rule s dt b a = true -> 0 <= dt ->
  nth 0 b 0 <= nth 0 a 0 /\ nth 1 b 0 <= nth 1 a 0.
Proof. exact clock_rule_monotone. Qed.
Print Assumptions C07_monotone.

(* the monitor rejects the pre-fix behaviours: clocks carried over a Restart, Block Time advancing while Holding *)
Example C07_monitor_rejects :
  mon7 (0, 0) [EStarted 0; EClock Running 1 [0; 0; 0; 0] [1; 1; 1; 1]; EStoppedRun; EStarted 1;
               EClock Running 1 [1; 1; 0; 0] [2; 2; 1; 1]] = None
  /\ mon7 (0, 0) [EStarted 0; EClock Holding 1 [0; 0; 0; 0] [0; 1; 1; 1]] = None
  /\ mon7 (0, 0) [EStarted 0; EClock Holding 1 [0; 0; 0; 0] [0; 1; 0; 0]; EClock Running 2 [0; 1; 0; 0] [2; 3; 2; 2]] = Some (2, 3).
Proof. vm_compute. repeat split. Qed.
