(* C01 Live method edits never re-run or lose run progress. Statements only.
   REFUTED: the theorems below are about a model of live edits AS IMPLEMENTED, validated tick by tick against the real
   MethodManager and interpreter. They state precisely how the property fails, and what still holds. *)
From Coq Require Import ZArith List Bool Arith.
From OP Require Import lib.Obs model.Interp model.InterpRun model.C01 proofs.Interp_inv proofs.C05_proofs proofs.C01_proofs.
Import ListNotations.
Open Scope Z_scope.

(* What holds. A rejected edit leaves the run exactly as it was. *)
Theorem C01_rejected_edit_changes_nothing : forall m e m', apply_edit m e = (m', false) -> m' = m.
Proof. exact rejected_changes_nothing. Qed.
Print Assumptions C01_rejected_edit_changes_nothing.
(* While the manager still holds the interpreter's program (the first edit of a run, or the edit after a reload), an edit is
   rejected exactly when it changes a line that has started or completed. *)
Theorem C01_attached_edit_rejected_iff_it_touches_a_started_line : forall m e, m_detached m = false ->
  (snd (apply_edit m e) = false <-> existsb (protected (m_s m)) (e_changed e) = true).
Proof. exact attached_rejected_iff. Qed.
Print Assumptions C01_attached_edit_rejected_iff_it_touches_a_started_line.

(* What fails, for EVERY method, state and edit. (1) After an accepted edit no line is started or completed any more:
   all run progress is dropped and the method runs again from its first line. *)
Theorem C01_refuted_accepted_edit_drops_all_progress : forall m e m',
  apply_edit m e = (m', true) -> forall n, started (st (m_s m') n) = false /\ completed (st (m_s m') n) = false.
Proof. intros m e m' H. exact (accepted_edit_drops_all_progress m e m' H). Qed.
Print Assumptions C01_refuted_accepted_edit_drops_all_progress.
(* (2) An accepted merge detaches the manager's program, and a detached manager accepts any edit, also of started lines. *)
Theorem C01_refuted_second_edit_is_not_validated : forall m e m' e',
  m_detached m = false -> apply_edit m e = (m', true) -> snd (apply_edit m' e') = true.
Proof. intros m e m' e' D H. apply detached_accepts_everything. exact (accepted_merge_detaches m e m' D H). Qed.
Print Assumptions C01_refuted_second_edit_is_not_validated.

(* A Coq-evaluated run: Mark: A / Wait: 2 s / Mark: B, a line appended after five ticks. Mark A had completed (view 2-4);
   after the edit it is not completed (view 5, 6) and completes a second time (view 7); the reported method state is empty
   from the edit on; the monitor of the property is false on the run. The same run on the real code shows 'A; A; B'. *)
Definition mk (k : kind) (par : option nat) (ch : list nat) := {| n_kind := k; n_parent := par; n_children := ch; n_thr := false |}.
Example C01_refuted_witness :
  let p0 := [mk KProgram None [1;2;3]%nat; mk KMark (Some 0%nat) []; mk (KWait 20) (Some 0%nat) []; mk KMark (Some 0%nat) []] in
  let p1 := [mk KProgram None [1;2;3;4]%nat; mk KMark (Some 0%nat) []; mk (KWait 20) (Some 0%nat) []; mk KMark (Some 0%nat) []; mk KMark (Some 0%nat) []] in
  let t := {| t_complete := []; t_dt := 1; t_thr_wait := []; t_cond_true := []; t_cond_err := [] |} in
  let ed := {| e_prog := p1; e_old := [Some 0; Some 1; Some 2; Some 3; None]%nat; e_changed := [] |} in
  let segs := repeat {| g_edit := None; g_tick := t |} 5 ++ [{| g_edit := Some ed; g_tick := t |}] ++ repeat {| g_edit := None; g_tick := t |} 6 in
  map (fun v => completed (C01.vst v 1)) (run (p0, segs)) = [false; false; true; true; true; false; false; true; true; true; true; true]
  /\ map ev_state (firstn 2 (skipn 4 (run (p0, segs)))) = [([0; 2]%nat, [1%nat]); ([], [])]
  /\ holds_b (p0, segs) (run (p0, segs)) = false.
Proof. vm_compute. repeat split; reflexivity. Qed.
