(* C25 Composite hardware is transparent. Statements only. *)
From Coq Require Import ZArith List Bool Arith.
From OP Require Import lib.Obs model.C25 proofs.C25_proofs.
Import ListNotations.
Open Scope Z_scope.

(* A composite batch read delivers, register for register and in order, the single reads --
   for ANY register list, duplicates included. *)
Theorem C25_read : forall lay m rs, comp_read lay m rs = map (mget m) rs.
Proof. exact comp_read_spec. Qed.
Print Assumptions C25_read.

(* After a composite batch write (any batch, duplicates and unequal lengths included) every
   layer memory holds what the individual writes, in order, would have left. *)
Theorem C25_write_mem : forall lay m vs rs,
  meq (comp_write lay m vs rs) (fold_left write1 (combine vs rs) m).
Proof. exact comp_write_spec. Qed.
Print Assumptions C25_write_mem.

(* For a batch without repeated registers each layer receives exactly its sub-sequence of
   (register, value) pairs, in batch order. *)
Theorem C25_write_log : forall lay vs rs L,
  NoDup (map snd (combine vs rs)) ->
  let P := combine vs rs in
  let rl := regs_of lay L (map snd P) in
  combine rl (map (look P) rl)
  = map (fun p => (snd p, fst p)) (filter (fun p => Nat.eqb (layer_of lay (snd p)) L) P).
Proof. exact layer_receives_subsequence. Qed.
Print Assumptions C25_write_log.

(* Any sequence of batch reads and writes is observationally the one-at-a-time behaviour. *)
Theorem C25_sequences : forall lay os m1 m2, meq m1 m2 ->
  fst (fst (comp_run lay m1 os)) = fst (spec_run m2 os)
  /\ meq (snd (comp_run lay m1 os)) (snd (spec_run m2 os)).
Proof. exact run_refines. Qed.
Print Assumptions C25_sequences.

Theorem C25_monitor_sound : forall i, holds_b i (run i) = true.
Proof. exact model_satisfies_monitor. Qed.
Print Assumptions C25_monitor_sound.

Example C25_nonvacuous :
  run ([0; 1; 0; 2]%nat,
       [Write [10; 11; 12; 13] [0; 1; 2; 3]%nat; Read [3; 0; 0; 1]%nat; Write [5; 6; 7] [1; 1; 2]%nat;
        Read [1; 2]%nat])
  = ([[]; [13; 10; 10; 11]; []; [6; 7]],
     [(0%nat, [(0%nat, 10); (2%nat, 12)]); (1%nat, [(1%nat, 11)]); (2%nat, [(3%nat, 13)]);
      (1%nat, [(1%nat, 6); (1%nat, 6)]); (0%nat, [(2%nat, 7)])],
     [10; 6; 7; 13]).
Proof. vm_compute. reflexivity. Qed.
