(* C38 Distinct engines never share an engine id. Statements only. *)
From Coq Require Import ZArith List Bool.
From OP Require Import lib.Obs model.C38 proofs.C38_proofs.
Import ListNotations.
Open Scope Z_scope.

(* Full-strength statement, for the id function of the code (quote(c + "_" + u)). *)
Definition C38_injective_statement (quote : str -> str) : Prop :=
  forall c1 u1 c2 u2, (c1, u1) <> (c2, u2) -> engine_id quote c1 u1 <> engine_id quote c2 u2.

(* It is FALSE of the faithful model whatever quote does: ("a_b","c") and ("a","b_c"). *)
Theorem C38_injective_refuted : forall quote, ~ C38_injective_statement quote.
Proof. exact injective_refuted. Qed.
Print Assumptions C38_injective_refuted.

(* Exactly which pairs collide (quote injective: Section hypothesis, see trusted base). *)
Theorem C38_collision_class : forall quote,
  (forall a b, quote a = quote b -> a = b) ->
  forall c1 u1 c2 u2,
  engine_id quote c1 u1 = engine_id quote c2 u2 <-> joined c1 u1 = joined c2 u2.
Proof. exact id_eq_iff. Qed.
Print Assumptions C38_collision_class.

(* Partial: injective on computer names without the separator. *)
Theorem C38_injective_partial : forall quote,
  (forall a b, quote a = quote b -> a = b) ->
  forall c1 u1 c2 u2, ~ In underscore c1 -> ~ In underscore c2 ->
  (c1, u1) <> (c2, u2) -> engine_id quote c1 u1 <> engine_id quote c2 u2.
Proof. exact injective_partial. Qed.
Print Assumptions C38_injective_partial.

(* A registration cannot take over the id of a connected engine: it is refused and changes nothing;
   and no history of registrations, connects and disconnects yields two connections with one id. *)
Theorem C38_no_takeover : forall names s p sec ver ign,
  is_connected s (key_of names p) = true -> step names s (Reg p sec ver ign) = (s, false).
Proof. exact reg_refused_when_connected. Qed.
Print Assumptions C38_no_takeover.

Theorem C38_one_connection_per_id : forall names os s,
  NoDup (ids s) -> NoDup (ids (final names s os)).
Proof. exact reachable_nodup. Qed.
Print Assumptions C38_one_connection_per_id.

Example C38_nonvacuous :
  let names := [([97], [98]); ([97; 95; 98], [99]); ([97], [98; 95; 99])] in
  run (names, [Reg 0 true true false; Conn 0; Reg 0 true true false; Conn 1; Reg 2 true true false; Disc 1;
               Reg 2 true true false])
  = ([false; false; true], [true; true; false; true; false; true; true]).
Proof. vm_compute. reflexivity. Qed.
