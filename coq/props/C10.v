(* C10 Stop and Restart leave no command running and start cleanly. Statements only. *)
From Coq Require Import ZArith List Bool Arith.
From OP Require Import lib.Obs model.Eng model.EngRun model.C10 model.C11 proofs.Eng_prims proofs.C10_proofs proofs.C11_proofs.
Import ListNotations.
Open Scope Z_scope.

(* Proved of the model for EVERY reachable state (any operation sequence, faults included):
   run ids are handed out in order 0, 1, 2, ... (so every run -- after Start and after Restart alike -- gets an id never
   used before) and the current run id is one of them. *)
Theorem C10_run_ids_fresh : forall safe overlaps n outs0 ops,
  let e := fold_left (fun e o => fst (step safe overlaps e o)) ops (boot safe (init n outs0)) in
  ids10 0 (trace e) = Some (next_run e) /\ (forall r, run_id e = Some r -> (r < next_run e)%nat).
Proof. intros safe overlaps n outs0 ops. exact (R10_reachable safe overlaps n outs0 ops). Qed.
Print Assumptions C10_run_ids_fresh.

(* the step that ends a run clears the run id and the started flag; Restart's last step installs the next id *)
Theorem C10_run_end_clears_run_id : forall safe e,
  (run_id (stop_core safe e) = None /\ started (stop_core safe e) = false)
  /\ (run_id (restart_stop e) = None /\ started (restart_stop e) = false)
  /\ (run_id (restart_finish e) = Some (next_run e) /\ started (restart_finish e) = true).
Proof. intros safe e. split; [apply stop_clears_run_id|split; [apply restart_clears_run_id|apply restart_new_run_id]]. Qed.
Print Assumptions C10_run_end_clears_run_id.

(* Stop / Restart cancel every executing request; for a UOD request that leaves its own instance disposed or cancelled,
   and a request without an instance done (C11's lemmas, restated for the clean-up pass) *)
Theorem C10_cancel_disposes_or_marks : forall e m r k, r_name r = CU k ->
  match find_u (fst (cancel_request e m r)) k with
  | None => True
  | Some c => c_id c = r_id r -> c_cancelled c = true
  end.
Proof. exact cancel_request_effect. Qed.
Print Assumptions C10_cancel_disposes_or_marks.

(* PARTIAL. Not proved: that NO instance is left when the run ends (a request whose tracking node refuses cancel() keeps
   its cancelled instance until its next turn; checked by the monitor on the real engine), the run-log clause and the
   simulation clause (tracking records and tag simulation are outside the engine-core model; C36 covers the tag side),
   "the method runs again from its first line" (interpreter). *)
Example C10_monitor_rejects :
  mon10 st10_0 [EStarted 0; EUInit 2 4; EUExec 2 4 0; EStoppedRun] = None
  /\ ids10 0 [EStarted 0; EStoppedRun; EStarted 0] = None
  /\ exists s, mon10 st10_0 [EStarted 0; EUInit 2 4; EUExec 2 4 0; EUFinal 2 4; EStoppedRun; EStarted 1] = Some s.
Proof. repeat split; try (vm_compute; reflexivity). eexists. vm_compute. reflexivity. Qed.
