(* C12 Cancel and Force requests take effect exactly as offered (node level). Statements only. *)
From Coq Require Import ZArith List Bool Arith.
From OP Require Import lib.Obs model.Interp model.InterpRun model.C12 proofs.Interp_inv proofs.C05_proofs proofs.Interp_fields proofs.C02_proofs proofs.C12_proofs proofs.Interp_stack proofs.C02_order proofs.C04_order proofs.C12_runs.
Import ListNotations.
Open Scope Z_scope.

(* Requests that are not offered are rejected and change nothing: a request for an item the run log does not offer as
   cancellable / forcible is refused, and a refused request -- not offered, or no longer allowed by the node -- leaves the
   whole interpreter state as it was. (With the /repo fixes: CommandManager checks the request against the run-log item;
   the run log offers only what the node still allows.) *)
Theorem C12_not_offered_is_refused : forall p fl s r, r_offered r = false -> request p fl s r = (s, false).
Proof. exact not_offered_refused. Qed.
Print Assumptions C12_not_offered_is_refused.
Theorem C12_refused_changes_nothing : forall p fl s r s', request p fl s r = (s', false) -> s' = s.
Proof. exact refused_unchanged. Qed.
Print Assumptions C12_refused_changes_nothing.

(* A request that is carried out was offered, the node allowed it (not cancelled, not forced, a Watch / Alarm not yet
   activated, the static flag of other instructions), it sets exactly that flag of exactly that node. *)
Theorem C12_accepted_was_offered_and_allowed : forall p fl s r s',
  request p fl s r = (s', true) -> (r_node r < length (nodes s))%nat ->
  r_offered r = true /\
  (if r_cancel r then cancellable p fl s (r_node r) = true /\ cancelled (st s' (r_node r)) = true
   else forcible p fl s (r_node r) = true /\ forced (st s' (r_node r)) = true).
Proof. exact accepted_spec. Qed.
Print Assumptions C12_accepted_was_offered_and_allowed.
Theorem C12_request_touches_only_its_node : forall p fl s r s' a m,
  request p fl s r = (s', a) -> m <> r_node r -> st s' m = st s m.
Proof. exact request_other. Qed.
Print Assumptions C12_request_touches_only_its_node.

(* A cancelled Watch never runs its body: in EVERY tick, from any state, with any environment, an instruction outside
   Alarms that is cancelled stays cancelled, and one that is cancelled and not activated is not activated by the tick --
   whether its condition holds, raises, or a force arrives afterwards (a cancelled node cannot be forced: forcible is
   false). Its body only runs after activation (C04). Inside Alarms a re-arm clears the flags: excluded. *)
Theorem C12_cancelled_is_never_activated : forall p e rounds fuel main s main' s' raised,
  tick p rounds fuel e main s = Some (main', s', raised) ->
  forall m, under_alarm p m = false ->
    (cancelled (st s m) = true -> cancelled (st s' m) = true) /\
    (cancelled (st s m) = true -> activated (st s m) = false -> activated (st s' m) = false).
Proof. intros p e rounds fuel main s main' s' raised T m U. exact (tick_cancelled p e rounds fuel main s main' s' raised T m U). Qed.
Print Assumptions C12_cancelled_is_never_activated.

(* A forced Wait, threshold instruction or Watch proceeds without waiting: the next transition of its generator completes
   the Wait whatever the time, lets the instruction past its threshold whatever the clock, activates the Watch / Alarm
   whatever its condition. *)
Theorem C12_forced_wait_completes : forall p e b n stop k s, forced (st s n) = true ->
  step p e b (FWait n stop) k s = Yield REnd (FRet :: k) (mark_completed (complete s n) n).
Proof. exact forced_wait_completes. Qed.
Print Assumptions C12_forced_wait_completes.
Theorem C12_forced_passes_its_threshold : forall p e n k s, forced (st s n) = true -> thr_loop p e n k s = enter n k s.
Proof. exact forced_enters. Qed.
Print Assumptions C12_forced_passes_its_threshold.
Theorem C12_forced_watch_activates : forall e s n,
  forced (st s n) = true -> cancelled (st s n) = false -> (n < length (nodes s))%nat ->
  exists s', try_activate e s n = Some s' /\ activated (st s' n) = true.
Proof. exact forced_activates. Qed.
Print Assumptions C12_forced_watch_activates.

(* Over whole runs WITH requests (the run function of model/C12.v: the command completions of the tick, then its cancel /
   force requests, then the tick; `rstates` lists the state after every tick and `C12_run_states_are_the_observed_states`
   ties it to the views the correspondence compares with the real interpreter).
   `from_then P Q l`: from the first state of l in which P holds on, Q holds in that state and in every later one. *)
Theorem C12_run_states_are_the_observed_states : forall p fl ts main s now,
  map (fun v => v_nodes (tv_view v)) (run_ticks p fl main s now ts) = map nodes (rstates p fl main s now ts).
Proof. exact run_ticks_nodes. Qed.
Print Assumptions C12_run_states_are_the_observed_states.
(* a line outside Alarm / Macro bodies that is cancelled while not activated stays cancelled and never becomes activated:
   no later request is carried out on it (not even force), no tick activates it, whatever its condition does *)
Theorem C12_cancelled_before_activation_is_never_activated : forall p fl ts q, under_alarm p q = false ->
  forall main s now, from_then (dead q) (dead q) (rstates p fl main s now ts).
Proof. exact cancelled_unactivated_stays. Qed.
Print Assumptions C12_cancelled_before_activation_is_never_activated.
(* "a cancelled Watch never runs its body": in EVERY run with ANY cancel / force requests at any ticks, from the state in
   which a Watch (outside Alarm / Macro bodies) is cancelled and not activated on, no line of its body is started -- in that
   state and in every later one. (Stack invariant of C04 -- a body line starts only under an activated Watch -- carried
   through the requests, with the theorem above.) *)
Theorem C12_a_watch_cancelled_before_activation_never_runs_its_body : forall p fl ts q,
  wf_b p = true -> n_kind (nd p q) = KWatch -> C02_order.plain p q = true ->
  from_then (dead q)
            (fun s => forall c, n_parent (nd p c) = Some q -> C02_order.plain p c = true -> started (st s c) = false)
            (rstates p fl [FVisit 0] (InterpRun.init p) 0 ts).
Proof. exact cancelled_watch_body_never_starts. Qed.
Print Assumptions C12_a_watch_cancelled_before_activation_never_runs_its_body.

(* PARTIAL (node level). Not modelled: the run-log items themselves (what the run log offers is an oracle of the model,
   observed per request), the command manager's side of a cancelled UOD command (finalized: proved under C11), and the
   timed Pause / Hold commands (a cancelled timed Pause ends at once). Threshold instructions cannot be forced through the
   run log at all: an instruction that awaits its threshold has no run-log item (observed, recorded in DESIGN.md). *)
