(* C04 Watch runs once after its condition holds; Alarm re-arms. Statements only. *)
From Coq Require Import ZArith List Bool Arith.
From OP Require Import lib.Obs model.Interp model.InterpRun model.C02 model.C04 proofs.Interp_inv proofs.C05_proofs proofs.Interp_fields proofs.C02_proofs model.C05 proofs.C05_pending proofs.Interp_stack proofs.C02_order proofs.C04_order model.C12 proofs.C12_proofs proofs.C12_runs.
Import ListNotations.
Open Scope Z_scope.

(* For EVERY tick of the interpreter model, from any state, with any environment: a Watch or Alarm that is activated after
   the tick was activated before it, or had been forced, or its condition evaluated true -- without raising -- in this
   tick. Nothing else in the interpreter (other generators, resets, block endings, errors) sets the activation flag. *)
Theorem C04_activation_only_when_condition_holds : forall p e rounds fuel main s main' s' raised,
  tick p rounds fuel e main s = Some (main', s', raised) ->
  forall m, activated (st s' m) = true ->
    activated (st s m) = true \/ forced (st s m) = true \/ C e m = true.
Proof.
  intros p e rounds fuel main s main' s' raised T m H.
  destruct (tick_activation p e rounds fuel main s main' s' raised T m) as [_ K]. now apply K.
Qed.
Print Assumptions C04_activation_only_when_condition_holds.

(* a Watch outside Alarm and Macro bodies runs its body at most once: its lines start at most once (C02's theorem, restated) *)
Theorem C04_watch_body_lines_start_once : forall p ts main s now m,
  C02_proofs.under_alarm p m = false -> C02_proofs.is_blank p m = false ->
  Forall (fun s' => (started (st s m) = true -> started (st s' m) = true) /\
                    (completed (st s m) = true -> completed (st s' m) = true))
         (states p main s now ts).
Proof. intros p ts. exact (run_monotone p ts). Qed.
Print Assumptions C04_watch_body_lines_start_once.

(* "Neither runs after the block that contains it has ended": after EVERY tick of EVERY run no Watch / Alarm whose block has
   ended has a handler left in the interrupt map (C05's theorem, restated for this clause): its condition is never
   evaluated and its body never entered again. (The lines of a body that was already running when the block ended stop at
   the next line: _visit_children tests the ended block before every child -- decided by the monitor, below.) *)
Theorem C04_no_handler_left_after_the_block_ended : forall p ts, C05.tree_ok_b p = true ->
  Forall (fun v => forall m, In m (v_ints v) ->
                   existsb (fun a => is_block p a && block_ended (C05.vst v a)) (ancestors p m) = false)
         (InterpRun.run (p, ts)).
Proof.
  intros p ts H. pose proof (no_pending_always p (tree_ok_tree p H) ts) as F.
  eapply Forall_impl; [|exact F]. intros v Hv m Hm. unfold pending_ok, no_pending_in_ended in Hv.
  rewrite forallb_forall in Hv. specialize (Hv m Hm). now apply negb_true_iff in Hv.
Qed.
Print Assumptions C04_no_handler_left_after_the_block_ended.

(* "The body runs only after the condition held": in EVERY state after every tick of EVERY run, for every well-formed
   method tree (wf_b, evaluated by the monitor on every generated method), outside Alarm and Macro bodies a started line
   whose parent is a Watch has an ACTIVATED parent. With the first theorem (activation only when the condition evaluated
   true or the Watch was forced): no line of a Watch body runs unless the Watch's condition held. Proof: stack invariant --
   the children loop of a Watch is pushed only by the frame that saw `activated`, and outside Alarm / Macro bodies nothing
   withdraws an activation. *)
Theorem C04_watch_body_runs_only_after_activation : forall p ts, wf_b p = true ->
  Forall (fun s => forall c q, n_parent (nd p c) = Some q -> n_kind (nd p q) = KWatch ->
                               C02_order.plain p c = true -> C02_order.plain p q = true ->
                               started (st s c) = true -> activated (st s q) = true)
         (states p [FVisit 0] (InterpRun.init p) 0 ts).
Proof. exact watch_body_runs_only_after_activation. Qed.
Print Assumptions C04_watch_body_runs_only_after_activation.

(* the same in runs with cancel / force requests at any ticks (run function of model/C12.v): requests change no started
   or activated flag and no generator; and "nor after it was cancelled": from the state in which a Watch is cancelled and not
   activated on, no line of its body is started *)
Theorem C04_watch_body_runs_only_after_activation_with_requests : forall p fl ts, wf_b p = true ->
  Forall (fun s => forall c q, n_parent (nd p c) = Some q -> n_kind (nd p q) = KWatch ->
                               C02_order.plain p c = true -> C02_order.plain p q = true ->
                               started (st s c) = true -> activated (st s q) = true)
         (rstates p fl [FVisit 0] (InterpRun.init p) 0 ts).
Proof. intros p fl ts. exact (req_watch_body_only_after_activation p fl ts). Qed.
Print Assumptions C04_watch_body_runs_only_after_activation_with_requests.
Theorem C04_a_cancelled_watch_never_runs_its_body : forall p fl ts q,
  wf_b p = true -> n_kind (nd p q) = KWatch -> C02_order.plain p q = true ->
  from_then (dead q)
            (fun s => forall c, n_parent (nd p c) = Some q -> C02_order.plain p c = true -> started (st s c) = false)
            (rstates p fl [FVisit 0] (InterpRun.init p) 0 ts).
Proof. exact cancelled_watch_body_never_starts. Qed.
Print Assumptions C04_a_cancelled_watch_never_runs_its_body.

(* PARTIAL. Decided by the Coq monitor on the real interpreter: a body line of an ALARM starts only while the Alarm is
   activated (for Watches: theorem above); a Watch outside Alarm and Macro bodies never loses its activation; nothing of a body starts after the enclosing block
   has ended. Cancel and force are not modelled (stage D). Observed and recorded in DESIGN.md: a Watch / Alarm nested
   inside an interrupt body is executed both inline by the enclosing generator and by its own interrupt -- the two
   generators share the node state, the body lines still run once per activation, but the alarm's run counter advances by
   two and it re-registers twice. *)
