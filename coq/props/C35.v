(* C35 Error-log aggregation loses nothing and counts repeats.
   Statements only; every proof is `exact <lemma>`. *)
From Coq Require Import ZArith List Bool.
From OP Require Import lib.Obs model.C35 proofs.C35_proofs.
Import ListNotations.
Open Scope Z_scope.

(* How a stream is cut into batches (successive aggregate_with calls) is irrelevant. *)
Theorem C35_batching_irrelevant : forall log b1 b2,
  aggregate (aggregate log b1) b2 = aggregate log (b1 ++ b2).
Proof. exact aggregate_app. Qed.
Print Assumptions C35_batching_irrelevant.

Theorem C35_batches_are_the_stream : forall bs log,
  aggregate_batches log bs = aggregate log (concat bs).
Proof. exact aggregate_batches_concat. Qed.
Print Assumptions C35_batches_are_the_stream.

(* Refinement: the log (oldest first) is one row per maximal run of equal
   (message, severity), in order. *)
Theorem C35_spec : forall es, rev (aggregate [] es) = group_runs es.
Proof. exact aggregate_spec. Qed.
Print Assumptions C35_spec.

(* A run of n entries with one key yields ONE row whose occurrence count is
   1 + the number of strictly increasing steps and whose time is the latest. *)
Theorem C35_count : forall a es,
  forallb (same_key a) es = true ->
  group_runs_aux a es =
  [{| a_msg := a_msg a; a_sev := a_sev a;
      a_time := last_max (a_time a) (map e_time es);
      a_occ := a_occ a + increases (a_time a) (map e_time es) |}].
Proof. exact single_run_count. Qed.
Print Assumptions C35_count.

(* Nothing is lost: every input entry is either counted in an occurrence count
   or is a redelivery (identical time), provided times inside a run of equal
   entries do not go backwards (entries with an EARLIER time are dropped by the
   code; the property text does not classify them). *)
Theorem C35_conservation : forall es,
  nondecreasing_runs es ->
  total (aggregate [] es) + count Redelivered [] es = Z.of_nat (length es).
Proof. exact nothing_lost. Qed.
Print Assumptions C35_conservation.

(* Unconditional accounting, earlier-time entries included. *)
Theorem C35_conservation_general : forall es log,
  total (aggregate log es) + count Redelivered log es + count Earlier log es
  = total log + Z.of_nat (length es).
Proof. exact conservation. Qed.
Print Assumptions C35_conservation_general.

Theorem C35_order : forall es,
  map akey (rev (aggregate [] es)) = compress (map ekey es).
Proof. exact order_kept. Qed.
Print Assumptions C35_order.

(* The monitor evaluated on implementation traces is satisfied by the model. *)
Theorem C35_monitor_sound : forall i, holds_b i (run i) = true.
Proof. exact model_satisfies_monitor. Qed.
Print Assumptions C35_monitor_sound.

(* Non-vacuity: a stream with repeats, a redelivery and interleaving satisfies
   the hypothesis of C35_conservation and exercises every branch. *)
Example C35_nonvacuous :
  let es := map mk_entry [(1,1,0); (1,1,1); (1,1,1); (2,1,1); (1,1,2); (1,2,2); (1,2,5)] in
  nondecreasing_runs es /\ count Redelivered [] es = 1 /\
  run [[[(1,1,0); (1,1,1)]; [(1,1,1); (2,1,1); (1,1,2)]; [(1,2,2); (1,2,5)]]; [[(1,2,6)]]]
  = [[(1,1,1,2); (2,1,1,1); (1,1,2,1); (1,2,5,2)]; [(1,2,6,1)]].
Proof. vm_compute. intuition discriminate. Qed.
