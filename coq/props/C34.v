(* C34 CSV export is a faithful sample-and-hold of the plot log. Statements only. *)
From Coq Require Import ZArith List Bool.
From OP Require Import lib.Obs model.C34 proofs.C34_proofs.
Import ListNotations.
Open Scope Z_scope.

(* Data rows are in strictly increasing time order ... *)
Theorem C34_rows_increasing : forall entries, strictly_incr (tick_times entries).
Proof. exact tick_times_incr. Qed.
Print Assumptions C34_rows_increasing.

(* ... and there is one row for exactly the recorded times. *)
Theorem C34_rows_complete : forall entries t,
  In t (tick_times entries) <-> In t (map stime (concat entries)).
Proof. exact tick_times_complete. Qed.
Print Assumptions C34_rows_complete.

(* Each cell is the latest recorded value (in stable time order) with time <= row time, or empty:
   for ALL plot logs, unsorted, interleaved, late-starting, repeated times. *)
Theorem C34_sample_and_hold : forall entries,
  export entries = map (fun t => (t, map (hold t) entries)) (tick_times entries).
Proof. exact export_spec. Qed.
Print Assumptions C34_sample_and_hold.

(* The stable sort of the header pass delivers time-ordered samples. *)
Theorem C34_sort_sorted : forall vs, sorted (sort_by_time vs).
Proof. exact sort_sorted. Qed.
Print Assumptions C34_sort_sorted.

Theorem C34_monitor_sound : forall i, holds_b i (run i) = true.
Proof. exact model_satisfies_monitor. Qed.
Print Assumptions C34_monitor_sound.

(* Non-vacuity / regression witnesses: a tag that starts late shows an empty cell, and repeated
   times do not lag (both failed before the fix recorded in KNOWN_FINDINGS.json). *)
Example C34_nonvacuous :
  export [[(1, 10); (3, 30)]; [(2, 20)]] =
    [(1, [Some 10; None]); (2, [Some 10; Some 20]); (3, [Some 30; Some 20])]
  /\ export [[(0, 1); (1, 31); (1, 32); (1, 33)]; [(0, 5); (2, 6)]] =
    [(0, [Some 1; Some 5]); (1, [Some 33; Some 5]); (2, [Some 33; Some 6])].
Proof. vm_compute. split; reflexivity. Qed.
