(* C22 Command argument patterns accept exactly their documented language. Statements only. *)
From Coq Require Import ZArith List Bool.
From OP Require Import lib.Obs model.C22 proofs.C22_proofs.
Import ListNotations.
Open Scope Z_scope.

(* Numeric patterns deliver the number and unit unchanged: whatever is captured is a substring of
   the argument, surrounded and separated by whitespace only; a captured unit is one of the
   declared units; with declared units the unit is mandatory. For ALL unit lists and strings. *)
Theorem C22_number_capture : forall units nonneg intonly s num unit,
  match_number units nonneg intonly s = Some (num, unit) ->
  exists pre mid post,
    all_space pre = true /\ all_space mid = true /\ all_space post = true /\
    s = pre ++ num ++ mid ++ (match unit with Some u => u | None => [] end) ++ post /\
    match unit with Some u => In u units | None => units = [] end.
Proof. exact number_capture. Qed.
Print Assumptions C22_number_capture.

(* Full-strength statement for categorical patterns. *)
Definition C22_categorical_statement : Prop :=
  forall excl add s, match_categorical excl add s = doc_categorical excl add s.
Definition C22_never_empty_statement : Prop :=
  forall excl add, match_categorical excl add [] = false.

(* Both are FALSE of the faithful model of the pattern ^(?P<option>(E|(A|\+)+)(?<!\+))\s*$ : *)
Theorem C22_never_empty_refuted : ~ C22_never_empty_statement.
Proof. intros H. specialize (H [] []). now rewrite empty_accepted_no_additive in H. Qed.
Print Assumptions C22_never_empty_refuted.

(* ... in fact the empty value is accepted for EVERY list of exclusive options without additive
   ones, and for every list of additive options without exclusive ones *)
Theorem C22_empty_accepted : forall l, match_categorical l [] [] = true /\ match_categorical [] l [] = true.
Proof. intros l. split; [apply empty_accepted_no_additive|apply empty_accepted_no_exclusive]. Qed.
Print Assumptions C22_empty_accepted.

Theorem C22_categorical_refuted : ~ C22_categorical_statement.
Proof.
  intros H. specialize (H [] [A01; A02] (A01 ++ A02)).
  destruct overaccepts_unseparated as [H1 H2]. congruence.
Qed.
Print Assumptions C22_categorical_refuted.

(* Partial: no documented value is ever rejected (options non-empty, not ending in '+'). *)
Theorem C22_categorical_partial : forall excl add s,
  forallb opt_ok add = true -> forallb opt_ok excl = true ->
  doc_categorical excl add s = true -> match_categorical excl add s = true.
Proof. exact doc_implies_impl. Qed.
Print Assumptions C22_categorical_partial.

(* Introspection: the unit list the UI derives from a pattern. Refuted for a unit containing '|'. *)
Definition C22_introspection_statement : Prop :=
  forall units, units <> [] -> get_units (regex_number_str units false false) = Some units.
Theorem C22_introspection_refuted : ~ C22_introspection_statement.
Proof.
  intros H. assert (E := H [[97; 124; 98]] ltac:(discriminate)). rewrite get_units_refuted in E. discriminate.
Qed.
Print Assumptions C22_introspection_refuted.

Example C22_nonvacuous :
  match_number [[107; 103]; [76; 47; 104]] false false [32; 45; 49; 46; 53; 32; 76; 47; 104; 10]
    = Some ([45; 49; 46; 53], Some [76; 47; 104])
  /\ doc_categorical [[67]] [A01; A02] (A01 ++ plus :: A02 ++ [32]) = true
  /\ match_categorical [[67]] [A01; A02] (A01 ++ plus :: A02 ++ [32]) = true
  /\ get_units (regex_number_str [[107; 103]; [76; 47; 104]; [37]] false false) = Some [[107; 103]; [76; 47; 104]; [37]].
Proof. vm_compute. repeat split; reflexivity. Qed.
