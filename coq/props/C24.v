(* C24 No lost or stale hardware writes after an outage. Statements only.
   (model/Recovery.v models the repaired code; see KNOWN_FINDINGS.json "fixed" entry) *)
From Coq Require Import ZArith List Bool Arith.
From OP Require Import lib.Obs gen.RecoveryConst model.Recovery proofs.Recovery_proofs.
Import ListNotations.
Open Scope Z_scope.

(* The invariant: for every register, the value most recently commanded by the engine (ghost) is
   either still buffered as exactly that value, or it is what the hardware holds; a register
   recorded as "last successfully written" is not buffered. It holds in every state reachable by
   ANY sequence of reads, writes, batches, ticks, connects and time advances with ANY hardware
   outcomes, including failures in the middle of a flush (batches without repeated registers). *)
Theorem C24_invariant : forall os c, Forall op_wf os -> Inv (final (init c) os).
Proof. intros os c H. exact (reachable_inv os (init c) H (init_inv c)). Qed.
Print Assumptions C24_invariant.

Theorem C24_step : forall s o, op_wf o -> Inv s -> Inv (fst (step s o)).
Proof. exact step_inv. Qed.
Print Assumptions C24_step.

(* "a buffered value is never written after a newer one" + "no lost write", as a statement about
   any reachable state: what is on the hardware or waiting in the buffer is the newest value. *)
Theorem C24_written_is_current : forall os c r v,
  Forall op_wf os ->
  let s := final (init c) os in
  aget (commanded s) r = Some v ->
  aget (pending s) r = Some v \/ (aget (pending s) r = None /\ aget (mem s) r = Some v).
Proof. intros os c r v H. exact (invJ _ (reachable_inv os (init c) H (init_inv c)) r v). Qed.
Print Assumptions C24_written_is_current.

(* Once the connection is back (state OK or Issue) and a write cycle succeeds, every register of
   the cycle holds the value just commanded and nothing stale stays buffered for it. *)
Theorem C24_converges : forall s ps oks,
  NoDup (map snd ps) -> Inv s -> (state s = SOK \/ state s = SIssue) ->
  let s' := fst (step s (WriteBatch ps true oks)) in
  forall v r, In (v, r) ps -> aget (mem s') r = Some v /\ aget (pending s') r = None.
Proof. exact cycle_converges. Qed.
Print Assumptions C24_converges.

(* Non-vacuity and regression witness: the history that lost the newest value before the fix
   (write 0 ok; write 1 fails and is buffered; write 2 ok; unchanged rewrite of 2). *)
Example C24_nonvacuous :
  let os := [WriteBatch [(0, 0%nat)] true []; WriteBatch [(1, 0%nat)] false [];
             WriteBatch [(2, 0%nat)] true [true]; WriteBatch [(2, 0%nat)] true [true]] in
  Forall op_wf os /\
  run (true, os) =
    ([(RDone, SOK, true); (RDone, SIssue, true); (RDone, SOK, true); (RDone, SOK, true)],
     [(0%nat, 0); (0%nat, 2)], []).
Proof.
  split; [repeat constructor; cbn; tauto|vm_compute; reflexivity].
Qed.
