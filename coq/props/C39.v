(* C39 The local run archive reads back exactly. Statements only. *)
From Coq Require Import ZArith List Bool.
From OP Require Import lib.Obs model.C39 proofs.C39_proofs.
Import ListNotations.
Open Scope Z_scope.

(* Reading the archive file back yields the archived rows unchanged, for ALL rows whose fields
   contain no CR/LF -- separators, commas, quotes and escape characters included -- and that are
   not the single-empty-field row the writer rejects. *)
Theorem C39_roundtrip : forall rows, forallb row_ok rows = true -> read_rows (write_rows rows) = rows.
Proof. exact roundtrip. Qed.
Print Assumptions C39_roundtrip.

Theorem C39_writer_accepts : forall r, row_ok r = true -> write_row r <> None.
Proof. exact writer_accepts. Qed.
Print Assumptions C39_writer_accepts.

(* Every data row has exactly the columns of the header. *)
Theorem C39_columns : forall now (tags : list (str * str * bool)),
  length (data_row now (map (fun t => (snd (fst t), snd t)) tags))
  = length (header_row (map (fun t => (fst (fst t), snd t)) tags)).
Proof. exact columns. Qed.
Print Assumptions C39_columns.

Theorem C39_monitor_sound : forall i, holds_b i (run i) = true.
Proof. exact model_satisfies_monitor. Qed.
Print Assumptions C39_monitor_sound.

Example C39_nonvacuous :
  let rows := [[[50; 48]; [97; 44; 98]; [92; 59]; []]; [[49]; [34; 35]; []; [44]]] in   (* fields: 20, a-comma-b, backslash-semicolon, empty; 1, quote-hash, empty, comma *)
  forallb row_ok rows = true /\ read_rows (write_rows rows) = rows.
Proof. vm_compute. split; reflexivity. Qed.
