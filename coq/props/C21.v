(* C21 Unit-aware comparisons are exact, consistent and symmetric. Statements only. *)
From Coq Require Import ZArith QArith List Bool Arith.
From OP Require Import lib.Obs gen.Units model.C21 proofs.C21_proofs.
Import ListNotations.
Open Scope Q_scope.

(* Whether two units may be compared does not depend on their order -- for every unit table (gen/Units.v is regenerated
   from units.py on every run) and all units, supported or not. (Before the /repo fix only the first unit's compatibility
   list was consulted: '%' lists 'vol%', 'vol%' lists only itself.) *)
Theorem C21_comparability_is_symmetric : forall a b, comparable a b = comparable b a.
Proof. exact comparable_sym. Qed.
Print Assumptions C21_comparability_is_symmetric.

(* The six operators are mutually consistent for ALL inputs -- any units, any decimals, whatever pint's conversion returns
   (exact or rounded): compare_values either raises for all six, or answers as ONE three-way comparison does, so exactly
   one of < = > holds, != is the negation of =, <= is < or =, >= is > or =. (With the /repo fix: the second value is
   converted to the first value's unit once, for every operator.) *)
Theorem C21_operators_answer_as_one_comparison : forall c,
  compare_all c = all_raise \/ exists k, compare_all c = six_of k.
Proof. exact compare_all_consistent. Qed.
Print Assumptions C21_operators_answer_as_one_comparison.
Theorem C21_one_comparison_obeys_the_laws : forall k, let s := six_of k in
  ((r_lt s = RT /\ r_eq s = RF /\ r_gt s = RF) \/ (r_lt s = RF /\ r_eq s = RT /\ r_gt s = RF) \/ (r_lt s = RF /\ r_eq s = RF /\ r_gt s = RT))
  /\ (r_ne s = RT <-> r_eq s = RF) /\ (r_le s = RT <-> r_lt s = RT \/ r_eq s = RT) /\ (r_ge s = RT <-> r_gt s = RT \/ r_eq s = RT).
Proof. exact six_of_laws. Qed.
Print Assumptions C21_one_comparison_obeys_the_laws.

(* Exactness, same unit or no unit: the comparison is the exact comparison of the two decimals, hence of the physical
   quantities (value * f + o with f > 0), for all decimals of any length. *)
Theorem C21_same_unit_exact : forall c,
  comparable (c_ua c) (c_ub c) = true -> same_unit c = true ->
  0 < c_fa c -> c_fb c == c_fa c -> c_ob c == c_oa c ->
  compare_all c = spec c.
Proof. exact same_unit_exact. Qed.
Print Assumptions C21_same_unit_exact.

(* Exactness, different units of one quantity -- PARTIAL: whenever pint's conversion of the second value into the first
   value's unit is exact (the converted decimal, taken back to the reference unit, IS the second physical quantity), all six
   operators give the result of comparing the physical quantities; offset units (degC, degF, K) included. *)
Theorem C21_exact_conversion_exact_comparison_partial : forall c,
  comparable (c_ua c) (c_ub c) = true -> same_unit c = false -> c_dim_ok c = true ->
  0 < c_fa c ->
  val (c_b_in_a c) * c_fa c + c_oa c == phys_b c ->
  compare_all c = spec c.
Proof. exact exact_conversion_gives_spec. Qed.
Print Assumptions C21_exact_conversion_exact_comparison_partial.

(* the hypotheses are satisfiable: 90 min vs 1.5 h, conversion exact *)
Example C21_nonvacuous :
  let c := {| c_ua := Some 1%nat; c_ub := Some 2%nat; c_a := {| d_m := 90; d_k := 0 |}; c_b := {| d_m := 15; d_k := 1 |};
              c_dim_ok := true; c_b_in_a := {| d_m := 900; d_k := 1 |}; c_fa := 60; c_oa := 0; c_fb := 3600; c_ob := 0 |} in
  comparable (c_ua c) (c_ub c) = true /\ same_unit c = false /\ val (c_b_in_a c) * c_fa c + c_oa c == phys_b c
  /\ r_eq (compare_all c) = RT.
Proof. vm_compute. repeat split; reflexivity. Qed.

(* REFUTED at full strength (known finding): the conversion is Decimal arithmetic with 28 significant digits; where the
   factor does not terminate (1/3600, 5/9, ...) a value that differs from the converted one only beyond that precision
   compares equal: 13461.3 L/d vs 560.8875000000000000000000000001 L/h. The behaviour before the fix, for the record:
   with pint's actual conversions of 1 L/h and 24 L/d, both = and < held *)
Example C21_old_operators_disagreed :
  let c := {| c_ua := Some 22%nat; c_ub := Some 24%nat; c_a := {| d_m := 1; d_k := 0 |}; c_b := {| d_m := 24; d_k := 0 |};
              c_dim_ok := true; c_b_in_a := {| d_m := 1; d_k := 0 |}; c_fa := 1; c_oa := 0; c_fb := 1; c_ob := 0 |} in
  let r := {| o_a_root := {| d_m := 2777777777777777777777777778; d_k := 34 |};
              o_b_root := {| d_m := 2777777777777777777777777779; d_k := 34 |}; o_a_in_b := {| d_m := 24; d_k := 0 |} |} in
  r_eq (compare_all_old c r) = RT /\ r_lt (compare_all_old c r) = RT.
Proof. vm_compute. split; reflexivity. Qed.

(* REFUTED at full strength, with pint's actual conversion as the oracle (known finding): 0.004367 min IS 262.02 ms, but
   pint converts 262.02 ms to 0.004367000000000000000000000001 min, so compare_values answers '<' and not '=' *)
Example C21_exactness_refuted :
  let c := {| c_ua := Some 1%nat; c_ub := Some 3%nat; c_a := {| d_m := 4367; d_k := 6 |}; c_b := {| d_m := 26202; d_k := 2 |};
              c_dim_ok := true; c_b_in_a := {| d_m := 4367000000000000000000000001; d_k := 30 |};
              c_fa := 60; c_oa := 0; c_fb := 1 # 1000; c_ob := 0 |} in
  r_eq (spec c) = RT /\ r_eq (compare_all c) = RF /\ r_lt (compare_all c) = RT.
Proof. vm_compute. repeat split; reflexivity. Qed.
