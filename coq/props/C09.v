(* C09 Unpause restores exactly the state captured when the current pause began. Statements only. *)
From Coq Require Import ZArith List Bool Arith.
From OP Require Import lib.Obs model.Eng model.EngRun model.C09 proofs.Eng_prims proofs.C09_proofs.
Import ListNotations.
Open Scope Z_scope.

(* In EVERY state reachable from engine start by ANY sequence of operations -- user control commands valid or not,
   method-issued Pause/Hold with or without duration, Stop, Restart, UOD commands that fail or run for many ticks,
   hardware read/write faults, interpreter errors, output changes, arbitrary time increments -- the engine's stored
   pre-pause state is exactly the pending capture the monitor computes from the event trace:
     - nothing is pending after a run starts or ends (a capture never survives into another run),
     - the Pause that begins a pause stores what it captured, a Pause executed while a capture is pending keeps it,
     - every Unpause applies exactly the pending capture (or nothing when none is pending) and clears it.
   In particular the monitor never fails on the trace of any execution. *)
Theorem C09_stored_state_is_pending_capture : forall safe overlaps n outs0 ops,
  let e := fold_left (fun e o => fst (step safe overlaps e o)) ops (boot safe (init n outs0)) in
  mon9 None (trace e) = Some (prev e).
Proof. intros safe overlaps n outs0 ops. exact (R9_reachable safe overlaps n outs0 ops). Qed.
Print Assumptions C09_stored_state_is_pending_capture.

Theorem C09_every_unpause_applies_the_pending_capture : forall safe overlaps n outs0 ops,
  mon9 None (trace (fold_left (fun e o => fst (step safe overlaps e o)) ops (boot safe (init n outs0)))) <> None.
Proof. exact monitor_never_fails. Qed.
Print Assumptions C09_every_unpause_applies_the_pending_capture.

(* Restoring is exact: applying the capture of _apply_safe_state to the outputs it produced gives back the outputs as
   they were, for every list of safe values and every output vector (registers without a safe value are untouched). *)
Theorem C09_restore_inverts_capture : forall safe outs,
  apply_state (snd (safe_from 0 safe outs)) (fst (safe_from 0 safe outs)) = outs.
Proof. intros safe outs. exact (restore_capture safe outs []). Qed.
Print Assumptions C09_restore_inverts_capture.

Theorem C09_pause_then_unpause : forall safe e,
  prev e = None -> outs (unpause_body (pause_begin safe e)) = outs e.
Proof. exact pause_unpause_outs. Qed.
Print Assumptions C09_pause_then_unpause.

(* the monitor does reject the pre-fix behaviour: a capture surviving a Stop and applied by the next run's Unpause *)
Example C09_monitor_rejects_stale :
  mon9 None [EStarted 0; EPause false [(0%nat, 3)]; EStoppedRun; EStarted 1; EUnpause (Some [(0%nat, 3)])] = None
  /\ mon9 None [EStarted 0; EPause false [(0%nat, 3)]; EPause true [(0%nat, 0)]; EUnpause (Some [(0%nat, 0)])] = None
  /\ mon9 None [EStarted 0; EPause false [(0%nat, 3)]; EPause true [(0%nat, 3)]; EUnpause (Some [(0%nat, 3)])] = Some None.
Proof. vm_compute. repeat split. Qed.
