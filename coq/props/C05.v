(* C05 Blocks nest and end correctly; Block tag names the active block. Statements only. *)
From Coq Require Import ZArith List Bool Arith.
From OP Require Import lib.Obs model.Interp model.InterpRun model.C05 proofs.Interp_inv proofs.C05_proofs proofs.C05_pending proofs.Interp_stack proofs.C02_order proofs.C05_order.
Import ListNotations.
Open Scope Z_scope.

(* In EVERY state the interpreter passes through -- for every method of the modelled constructs (stage A: Mark, Blank /
   Comment, Block, End block, End blocks, Watch, Alarm, Wait, Noop, command lines, simple and invalid instructions,
   thresholds), every environment (which thresholds are still awaited, which conditions hold or raise, when commands
   complete, tick times) and any number of ticks -- the blocks that hold the block lock form ONE nested chain: of any
   two, one is an ancestor of the other. A block can take the lock only when every locked block is one of its ancestors,
   and nothing else ever sets the lock. (Blocks of the method tree: in_method; the blocks of injected snippets are invisible
   to get_locked_blocks -- C14.) *)
Theorem C05_locked_blocks_form_a_chain : forall p ts,
  Forall (fun s => forall a b, is_block p a = true -> is_block p b = true -> in_method p a = true -> in_method p b = true ->
                   lock_acquired (st s a) = true -> lock_acquired (st s b) = true ->
                   a = b \/ In a (ancestors p b) \/ In b (ancestors p a))
         (states p [FVisit 0] (init p) 0 ts).
Proof. intros p ts. exact (Chain_always p ts). Qed.
Print Assumptions C05_locked_blocks_form_a_chain.

(* the states of that theorem are the ones the correspondence observes: the node states of the views of a run *)
Lemma states_are_views : forall p ts main s now,
  map nodes (states p main s now ts) = map v_nodes (run_ticks p main s now ts).
Proof.
  intros p ts. induction ts as [|t ts IH]; intros main s now; cbn [states run_ticks]; [reflexivity|].
  destruct (tick p (rounds_of p) (fuel_of p) _ main _) as [[[main' s2] r]|]; [|reflexivity].
  cbn [map v_nodes]. now rewrite IH.
Qed.
Theorem C05_views_are_those_states : forall p ts,
  map nodes (states p [FVisit 0] (init p) 0 ts) = map v_nodes (InterpRun.run (p, ts)).
Proof. intros p ts. apply states_are_views. Qed.
Print Assumptions C05_views_are_those_states.

(* 'End block' / 'End blocks' end the block(s) TOGETHER WITH THEIR PENDING WATCHES AND ALARMS: after EVERY tick of EVERY
   run, no Watch / Alarm of the interrupt map lies inside a block that has ended -- for every method whose parent
   pointers and child lists describe the same tree (tree_ok_b, evaluated by the check on every generated method), every
   environment and any number of ticks. Three things make it true: End block removes every interrupt among the
   descendants of the block it ends; nothing else sets block_ended; and (the /repo fix) _register_interrupt refuses a node
   inside an ended block, which closes the three ways a Watch / Alarm used to get (back) into the map of an ended block:
   its generator was still in the tick's copy of the map, an Alarm re-armed itself after its own body ended the block,
   a line that had passed the ended-block test one tick earlier registered itself. *)
Theorem C05_no_pending_watch_or_alarm_in_an_ended_block : forall p ts, tree_ok_b p = true ->
  Forall (fun v => no_pending_in_ended p v = true) (InterpRun.run (p, ts)).
Proof. intros p ts H. apply no_pending_always. now apply tree_ok_tree. Qed.
Print Assumptions C05_no_pending_watch_or_alarm_in_an_ended_block.

(* Lock clause. In EVERY state after every tick of EVERY run, for every well-formed method tree (wf_b, evaluated by the
   monitor on every generated method), outside Alarm and Macro bodies a started line whose parent is a Block lies in a block
   that has taken the lock: it holds it, or has ended / completed since. No line of a block body runs before the block
   acquired the block lock; with the chain theorem, the blocks whose bodies are running are nested in each other. Stack
   invariant (proofs/Interp_stack.v): the children loop of a Block is pushed only by a frame that saw the lock, and outside
   Alarm / Macro bodies "lock or ended or completed" never falls (the lock is given back only by a block that has ended). *)
Theorem C05_a_block_body_runs_only_with_the_lock : forall p ts, wf_b p = true ->
  Forall (fun s => forall c q, n_parent (nd p c) = Some q -> n_kind (nd p q) = KBlock ->
                               C02_order.plain p c = true -> C02_order.plain p q = true -> started (st s c) = true ->
                               lock_acquired (st s q) = true \/ block_ended (st s q) = true \/ completed (st s q) = true)
         (states p [FVisit 0] (InterpRun.init p) 0 ts).
Proof. exact block_body_runs_only_with_the_lock. Qed.
Print Assumptions C05_a_block_body_runs_only_with_the_lock.

(* PARTIAL. Proved: the chain clause, the pending-interrupt clause and the lock clause. Checked by the Coq monitor on the real interpreter
   (and, through the correspondence, on the model): the Block tag names the innermost active block and nothing when none
   is active; an instruction after a block starts only after the block has ended.
   Not modelled: macros (a Block inside a macro called from inside another block can never take the lock -- its static
   ancestors do not include the caller's block -- and the run stalls; observed while building C41). *)
Example C05_nonvacuous :
  let p := [ {| n_kind := KProgram; n_parent := None; n_children := [1; 4]%nat; n_thr := false |};
             {| n_kind := KBlock; n_parent := Some 0%nat; n_children := [2; 3]%nat; n_thr := false |};
             {| n_kind := KMark; n_parent := Some 1%nat; n_children := []; n_thr := false |};
             {| n_kind := KEndBlock; n_parent := Some 1%nat; n_children := []; n_thr := false |};
             {| n_kind := KMark; n_parent := Some 0%nat; n_children := []; n_thr := false |} ] in
  let t := {| t_complete := []; t_dt := 1; t_thr_wait := []; t_cond_true := []; t_cond_err := [] |} in
  map v_block (InterpRun.run (p, repeat t 12)) =
  [None; None; Some 1%nat; Some 1%nat; Some 1%nat; None; None; None; None; None; None; None].
Proof. vm_compute. reflexivity. Qed.
Example C05_tree_ok_nonvacuous :
  tree_ok_b [ {| n_kind := KProgram; n_parent := None; n_children := [1; 4]%nat; n_thr := false |};
              {| n_kind := KBlock; n_parent := Some 0%nat; n_children := [2; 3]%nat; n_thr := false |};
              {| n_kind := KWatch; n_parent := Some 1%nat; n_children := []; n_thr := false |};
              {| n_kind := KEndBlock; n_parent := Some 1%nat; n_children := []; n_thr := false |};
              {| n_kind := KMark; n_parent := Some 0%nat; n_children := []; n_thr := false |} ] = true.
Proof. vm_compute. reflexivity. Qed.

(* REFUTED (known finding): the after-block clause fails inside a re-arming Alarm body. The model's own run of
     Alarm: X > 2 / Block: B1 [Wait: 0 s; Wait: 2 s; End blocks] / Watch: X > 2
   reaches a state in which the Watch after the block has started while the block, started again by the Alarm's second
   invocation, has not ended: the Watch's interrupt of the first invocation survived the re-arm. *)
Example C05_after_block_refuted :
  let p := [{| n_kind := KProgram; n_parent := None; n_children := [1%nat]; n_thr := false |}; {| n_kind := KAlarm; n_parent := (Some 0%nat); n_children := [2%nat; 6%nat]; n_thr := false |}; {| n_kind := KBlock; n_parent := (Some 1%nat); n_children := [3%nat; 4%nat; 5%nat]; n_thr := false |}; {| n_kind := (KWait 0); n_parent := (Some 2%nat); n_children := []; n_thr := false |}; {| n_kind := (KWait 20); n_parent := (Some 2%nat); n_children := []; n_thr := false |}; {| n_kind := KEndBlocks; n_parent := (Some 2%nat); n_children := []; n_thr := false |}; {| n_kind := KWatch; n_parent := (Some 1%nat); n_children := [7%nat; 8%nat; 9%nat]; n_thr := false |}; {| n_kind := (KBlank true); n_parent := (Some 6%nat); n_children := []; n_thr := false |}; {| n_kind := (KBlank true); n_parent := (Some 6%nat); n_children := []; n_thr := false |}; {| n_kind := (KBlank true); n_parent := (Some 6%nat); n_children := []; n_thr := false |}] in
  let ts := [{| t_complete := []; t_dt := 1; t_thr_wait := []; t_cond_true := [1%nat]; t_cond_err := [] |}; {| t_complete := []; t_dt := 1; t_thr_wait := []; t_cond_true := [1%nat]; t_cond_err := [] |}; {| t_complete := []; t_dt := 1; t_thr_wait := []; t_cond_true := [1%nat]; t_cond_err := [] |}; {| t_complete := []; t_dt := 2; t_thr_wait := []; t_cond_true := [1%nat]; t_cond_err := [] |}; {| t_complete := []; t_dt := 1; t_thr_wait := []; t_cond_true := [1%nat]; t_cond_err := [] |}; {| t_complete := []; t_dt := 2; t_thr_wait := []; t_cond_true := []; t_cond_err := [] |}; {| t_complete := []; t_dt := 1; t_thr_wait := []; t_cond_true := [1%nat]; t_cond_err := [] |}; {| t_complete := []; t_dt := 1; t_thr_wait := []; t_cond_true := [1%nat]; t_cond_err := [] |}; {| t_complete := []; t_dt := 1; t_thr_wait := []; t_cond_true := [6%nat]; t_cond_err := [] |}; {| t_complete := []; t_dt := 1; t_thr_wait := []; t_cond_true := [1%nat]; t_cond_err := [] |}; {| t_complete := []; t_dt := 2; t_thr_wait := []; t_cond_true := [1%nat]; t_cond_err := [] |}; {| t_complete := []; t_dt := 1; t_thr_wait := []; t_cond_true := [6%nat]; t_cond_err := [] |}; {| t_complete := []; t_dt := 1; t_thr_wait := []; t_cond_true := [6%nat]; t_cond_err := [] |}; {| t_complete := []; t_dt := 1; t_thr_wait := []; t_cond_true := [1%nat]; t_cond_err := [] |}; {| t_complete := []; t_dt := 1; t_thr_wait := []; t_cond_true := [1%nat; 6%nat]; t_cond_err := [] |}; {| t_complete := []; t_dt := 1; t_thr_wait := []; t_cond_true := [1%nat]; t_cond_err := [] |}; {| t_complete := []; t_dt := 1; t_thr_wait := []; t_cond_true := []; t_cond_err := [] |}; {| t_complete := []; t_dt := 1; t_thr_wait := []; t_cond_true := []; t_cond_err := [] |}; {| t_complete := []; t_dt := 1; t_thr_wait := []; t_cond_true := [1%nat; 6%nat]; t_cond_err := [] |}; {| t_complete := []; t_dt := 1; t_thr_wait := []; t_cond_true := []; t_cond_err := [] |}] in
  existsb (fun v => negb (after_block_ok p v)) (InterpRun.run (p, ts)) = true.
Proof. vm_compute. reflexivity. Qed.
