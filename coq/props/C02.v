(* C02 Method instructions run once each, in source order. Statements only. *)
From Coq Require Import ZArith List Bool Arith.
From OP Require Import lib.Obs model.Interp model.InterpRun model.C02 proofs.Interp_inv proofs.C05_proofs proofs.Interp_fields proofs.C02_proofs.
Import ListNotations.
Open Scope Z_scope.

(* In EVERY run of the interpreter model (any method of the stage-A constructs, any environment, any number of ticks, no
   live edit, no Restart): outside the bodies of Alarms, an instruction (other than a blank / comment line) that has
   started stays started for the rest of the run, and one that has completed stays completed. So its `started` flag rises
   at most once: every instruction of the method body starts at most once. (Inside an Alarm body the re-arm resets the
   lines: they may run repeatedly, as the property allows.) *)
Theorem C02_starts_at_most_once : forall p ts main s now m,
  C02_proofs.under_alarm p m = false -> C02_proofs.is_blank p m = false ->
  Forall (fun s' => (started (st s m) = true -> started (st s' m) = true) /\
                    (completed (st s m) = true -> completed (st s' m) = true))
         (states p main s now ts).
Proof. intros p ts. exact (run_monotone p ts). Qed.
Print Assumptions C02_starts_at_most_once.

(* PARTIAL. Proved: at most once (above). Decided by the Coq monitor on the real interpreter (and on the model through the
   correspondence): lines at the same level start in source order, a line starts only after the line before it at that
   level has been passed (completed, failed, handed to the engine or registered as interrupt) and after its enclosing
   block / watch has started; blank and comment lines at the end of a scope are never completed. Macros are not modelled. *)
Example C02_nonvacuous :
  let p := [ {| n_kind := KProgram; n_parent := None; n_children := [1; 2]%nat; n_thr := false |};
             {| n_kind := KMark; n_parent := Some 0%nat; n_children := []; n_thr := false |};
             {| n_kind := KMark; n_parent := Some 0%nat; n_children := []; n_thr := false |} ] in
  let t := {| t_complete := []; t_dt := 1; t_thr_wait := []; t_cond_true := []; t_cond_err := [] |} in
  map (fun v => map (fun x => (started x, completed x)) (v_nodes v)) (InterpRun.run (p, repeat t 5)) =
  [[(true, false); (false, false); (false, false)]; [(true, false); (true, false); (false, false)];
   [(true, false); (true, true); (false, false)]; [(true, false); (true, true); (true, false)];
   [(true, false); (true, true); (true, true)]].
Proof. vm_compute. reflexivity. Qed.
