(* C02 Method instructions run once each, in source order. Statements only. *)
From Coq Require Import ZArith List Bool Arith.
From OP Require Import lib.Obs model.Interp model.InterpRun model.C02 proofs.Interp_inv proofs.C05_proofs proofs.Interp_fields proofs.C02_proofs proofs.Interp_stack proofs.C02_order.
Import ListNotations.
Open Scope Z_scope.

(* In EVERY run of the interpreter model (any method of the stage-A constructs, any environment, any number of ticks, no
   live edit, no Restart): outside the bodies of Alarms, an instruction (other than a blank / comment line) that has
   started stays started for the rest of the run, and one that has completed stays completed. So its `started` flag rises
   at most once: every instruction of the method body starts at most once. (Inside an Alarm body the re-arm resets the
   lines: they may run repeatedly, as the property allows.) *)
Theorem C02_starts_at_most_once : forall p ts main s now m,
  C02_proofs.under_alarm p m = false -> C02_proofs.is_blank p m = false ->
  Forall (fun s' => (started (st s m) = true -> started (st s' m) = true) /\
                    (completed (st s m) = true -> completed (st s' m) = true))
         (states p main s now ts).
Proof. intros p ts. exact (run_monotone p ts). Qed.
Print Assumptions C02_starts_at_most_once.

(* Order, scope clause. In EVERY state after every tick of EVERY run of the interpreter model (all generators: the main
   flow and every Watch / Alarm handler, also the copies of the tick's interrupt map), for every method whose tree is well
   formed (wf_b: child lists and parent pointers agree, the root has no parent -- evaluated by the monitor on every generated
   method): outside the bodies of Alarms and Macros a line that has started lies in a scope (parent line) that has started.
   A line is started only by the visit the children loop of its parent pushed, that loop runs only in a started parent,
   and outside Alarm / Macro bodies nothing withdraws a started flag. The proof is a stack invariant (proofs/Interp_stack.v):
   every frame of every generator belongs to a line whose parent has started; other generators cannot invalidate it. *)
Theorem C02_a_started_line_lies_in_a_started_scope : forall p ts, wf_b p = true ->
  Forall (fun s => forall c q, n_parent (nd p c) = Some q -> C02_order.plain p c = true -> C02_order.plain p q = true ->
                               started (st s c) = true -> started (st s q) = true)
         (states p [FVisit 0] (InterpRun.init p) 0 ts).
Proof. exact started_line_lies_in_started_scope. Qed.
Print Assumptions C02_a_started_line_lies_in_a_started_scope.

(* PARTIAL. Proved: at most once and 'only inside a started scope' (above). Decided by the Coq monitor on the real interpreter (and on the model through the
   correspondence): lines at the same level start in source order, a line starts only after the line before it at that
   level has been passed (completed, failed, handed to the engine or registered as interrupt) and after its enclosing
   block / watch has started; blank and comment lines at the end of a scope are never completed. Macros are not modelled. *)
Example C02_nonvacuous :
  let p := [ {| n_kind := KProgram; n_parent := None; n_children := [1; 2]%nat; n_thr := false |};
             {| n_kind := KMark; n_parent := Some 0%nat; n_children := []; n_thr := false |};
             {| n_kind := KMark; n_parent := Some 0%nat; n_children := []; n_thr := false |} ] in
  let t := {| t_complete := []; t_dt := 1; t_thr_wait := []; t_cond_true := []; t_cond_err := [] |} in
  map (fun v => map (fun x => (started x, completed x)) (v_nodes v)) (InterpRun.run (p, repeat t 5)) =
  [[(true, false); (false, false); (false, false)]; [(true, false); (true, false); (false, false)];
   [(true, false); (true, true); (false, false)]; [(true, false); (true, true); (true, false)];
   [(true, false); (true, true); (true, true)]].
Proof. vm_compute. reflexivity. Qed.

(* the hypotheses of the scope theorem hold of the example: the tree is well formed, its lines are plain *)
Example C02_scope_nonvacuous :
  let p := [ {| n_kind := KProgram; n_parent := None; n_children := [1; 2]%nat; n_thr := false |};
             {| n_kind := KWatch; n_parent := Some 0%nat; n_children := [3]%nat; n_thr := false |};
             {| n_kind := KMark; n_parent := Some 0%nat; n_children := []; n_thr := false |};
             {| n_kind := KMark; n_parent := Some 1%nat; n_children := []; n_thr := false |} ] in
  wf_b p = true /\ map (C02_order.plain p) [0; 1; 2; 3]%nat = [true; true; true; true].
Proof. vm_compute. split; reflexivity. Qed.
