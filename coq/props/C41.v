(* C41 Macros ... never recurse (recursion clause). Statements only. *)
From Coq Require Import ZArith List Bool Arith.
From OP Require Import lib.Obs model.C41 model.Interp model.InterpRun proofs.Interp_inv proofs.C41_proofs proofs.C41_registry.
Import ListNotations.
From Coq Require Import Lia.

(* The decision both the interpreter (visit_CallMacroNode) and the analyzer take -- refuse the call / flag the macro when
   macro_calling_macro finds the macro's own name -- is EXACTLY "some chain of calls starting in the macro's body leads
   to a call of the macro", for every macro table of any size and shape (cycles among other macros, repeated calls,
   undefined callees, redefinitions): sound (a reported chain is genuine and ends with the macro), complete (no chain
   is missed) and terminating within a recursion depth of the number of macros. *)
Theorem C41_refused_iff_would_recurse : forall t m b, lookup t m = Some b ->
  (refused t m = true <-> reach t m b).
Proof. exact refused_decides. Qed.
Print Assumptions C41_refused_iff_would_recurse.

Theorem C41_reported_chain_is_genuine : forall t target f vis body p v,
  search f t target vis body = Some (p, v) -> p <> [] -> reach t target body /\ last p 0%nat = target.
Proof. exact sound. Qed.
Print Assumptions C41_reported_chain_is_genuine.

Theorem C41_search_terminates : forall t target body, search (Datatypes.S (length t)) t target [] body <> None.
Proof. intros t target body. apply fuel_enough. pose proof (unvisited_bound t). lia. Qed.
Print Assumptions C41_search_terminates.

(* the behaviour before the /repo fix, as a model variant: only the FIRST resolvable call among the DIRECT children was
   followed, so  A = [call B; call A], B = []  was not refused although A calls itself (the run then stalled) *)
Example C41_old_behaviour_missed :
  let t := [(0, [1; 0]); (1, [])]%nat in refused t 0%nat = true /\ reach t 0%nat [1; 0]%nat.
Proof. split; [vm_compute; reflexivity|apply r_here; right; now left]. Qed.

(* The interpreter's side (model/Interp.v, validated tick by tick against the real PInterpreter on generated methods with
   macro definitions, redefinitions, calls in blocks and watch bodies): a call runs the body of the Macro node REGISTERED
   LAST under that name; a call of an undefined macro, or one the recursion search refuses, fails without running a line. *)
Theorem C41_latest_definition_wins : forall l nm m, Interp.macro_lookup (Interp.macro_put l nm m) nm = Some m.
Proof. exact latest_definition_wins. Qed.
Print Assumptions C41_latest_definition_wins.
Theorem C41_other_macros_untouched_by_a_definition : forall l nm m nm', nm' <> nm ->
  Interp.macro_lookup (Interp.macro_put l nm m) nm' = Interp.macro_lookup l nm'.
Proof. exact other_names_untouched. Qed.
Print Assumptions C41_other_macros_untouched_by_a_definition.
Theorem C41_undefined_call_fails : forall p e b n nm k s,
  Interp.n_kind (Interp.nd p n) = Interp.KCallMacro nm -> Interp.macro_lookup (Interp.macros s) nm = None ->
  Interp.dispatch p e b n k s = Interp.Raise k s.
Proof. exact undefined_call_fails. Qed.
Print Assumptions C41_undefined_call_fails.
Theorem C41_recursive_call_fails : forall p e b n nm m k s,
  Interp.n_kind (Interp.nd p n) = Interp.KCallMacro nm -> Interp.macro_lookup (Interp.macros s) nm = Some m ->
  Interp.would_recurse p s nm m = true -> Interp.dispatch p e b n k s = Interp.Raise k s.
Proof. exact recursive_call_fails. Qed.
Print Assumptions C41_recursive_call_fails.

(* the registry over whole runs: every transition of the interpreter model keeps the registry, except the execution of a
   definition line that is not yet registered, which puts that line under its own name (with C41_latest_definition_wins and
   C41_other_macros_untouched_by_a_definition: the name then resolves to that line, every other name as before) *)
Theorem C41_only_a_definition_line_changes_the_registry : forall p e b f k s,
  C41_registry.reg_step p f s (C41_registry.out_state (step p e b f k s)).
Proof. exact C41_registry.step_reg. Qed.
Print Assumptions C41_only_a_definition_line_changes_the_registry.
(* after every tick of every run every registry entry is a Macro definition line carrying the entry's name *)
Theorem C41_registry_holds_definitions_of_the_name : forall p ts,
  Forall (fun s => Forall (fun x => n_kind (nd p (snd x)) = KMacro (fst x)) (macros s)) (states p [FVisit 0] (InterpRun.init p) 0%Z ts).
Proof. exact C41_registry.registry_wf_always. Qed.
Print Assumptions C41_registry_holds_definitions_of_the_name.
(* so a call either fails or runs the children of the definition registered under the called name *)
Theorem C41_call_runs_the_registered_definition : forall p e b n nm k s,
  Forall (fun x => n_kind (nd p (snd x)) = KMacro (fst x)) (macros s) -> n_kind (nd p n) = KCallMacro nm ->
  dispatch p e b n k s = Raise k s
  \/ exists m s1, macro_lookup (macros s) nm = Some m /\ n_kind (nd p m) = KMacro nm
                  /\ dispatch p e b n k s = Go (FKidsEntry m :: FCallAfter n m :: k) s1.
Proof. exact C41_registry.call_runs_registered_definition. Qed.
Print Assumptions C41_call_runs_the_registered_definition.

(* PARTIAL: "once per call, lines in order" is covered by the correspondence of the interpreter model (C02's monitors run on
   methods with macros) and by the run stream below, not by a theorem; "a started macro may not be edited or removed"
   belongs to the live-edit validation (C01). The run stream of the check observes on
   the real engine that a method of macro calls either fails or reaches its end (never stalls) and fails exactly when an
   executed call is undefined or would recurse. *)
