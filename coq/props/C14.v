(* C14 Injected code runs once in the current scope (interpreter level). Statements only. *)
From Coq Require Import ZArith List Bool Arith.
From OP Require Import lib.Obs model.Interp model.InterpRun model.C14 proofs.Interp_inv proofs.C05_proofs proofs.Interp_fields proofs.C02_proofs proofs.C14_proofs proofs.Interp_stack proofs.C02_order proofs.C14_order.
Import ListNotations.
Open Scope Z_scope.

(* Injecting code does not change which lines have started or completed: the injection registers the root of the snippet
   and touches nothing else. *)
Theorem C14_injection_touches_no_line : forall p l s m,
  started (st (fold_left (inject p) l s) m) = started (st s m) /\ completed (st (fold_left (inject p) l s) m) = completed (st s m).
Proof. exact injects_started_completed. Qed.
Print Assumptions C14_injection_touches_no_line.
Theorem C14_injection_changes_only_its_root : forall p s r m, m <> r -> st (inject p s r) m = st s m.
Proof. exact inject_other. Qed.
Print Assumptions C14_injection_changes_only_its_root.

(* Injected code runs once: in EVERY run with any injections at any ticks, an instruction outside Alarm and Macro bodies -- a method
   line or a line of a snippet -- that has started stays started and one that has completed stays completed: its `started`
   flag rises at most once, it never runs a second time. *)
Theorem C14_lines_run_at_most_once_with_injections : forall p ts main s now m,
  under_alarm p m = false -> C02_proofs.is_blank p m = false ->
  Forall (fun s' => (started (st s m) = true -> started (st s' m) = true) /\ (completed (st s m) = true -> completed (st s' m) = true))
         (C14_proofs.states p main s now ts).
Proof. intros p ts. exact (run_with_injections_monotone p ts). Qed.
Print Assumptions C14_lines_run_at_most_once_with_injections.

(* Scope. Over whole runs with injections at any ticks (injected roots have no parent line: roots_ok_b, evaluated by the
   monitor on every case, like wf_b), outside Alarm and Macro bodies a started line -- of the method or of a snippet -- lies
   in a scope (parent line) that has started: the lines of a snippet run inside the snippet's own scopes, and no injection
   makes a method line start outside its scope. (Stack invariant of C02 carried through the injections: an injection adds one
   generator, the visit of a parentless root, and changes no started flag.) *)
Theorem C14_started_lines_lie_in_started_scopes_with_injections : forall p ts, wf_b p = true -> C14_order.roots_ok_b p ts = true ->
  Forall (fun s => forall c q, n_parent (nd p c) = Some q -> C02_order.plain p c = true -> C02_order.plain p q = true ->
                               started (st s c) = true -> started (st s q) = true)
         (C14_proofs.states p [FVisit 0] (InterpRun.init p) 0 ts).
Proof. intros p ts W. exact (scope_with_injections p W ts). Qed.
Print Assumptions C14_started_lines_lie_in_started_scopes_with_injections.

(* the same for the other two scope clauses: with injections at any ticks, a Watch body -- of the method or of a snippet --
   runs only after the Watch was activated, and a Block body only once the block took the lock *)
Theorem C14_watch_bodies_run_only_after_activation_with_injections : forall p ts, wf_b p = true -> C14_order.roots_ok_b p ts = true ->
  Forall (fun s => forall c q, n_parent (nd p c) = Some q -> n_kind (nd p q) = KWatch ->
                               C02_order.plain p c = true -> C02_order.plain p q = true ->
                               started (st s c) = true -> activated (st s q) = true)
         (C14_proofs.states p [FVisit 0] (InterpRun.init p) 0 ts).
Proof. intros p ts W. exact (activation_with_injections p W ts). Qed.
Print Assumptions C14_watch_bodies_run_only_after_activation_with_injections.
Theorem C14_block_bodies_run_only_with_the_lock_with_injections : forall p ts, wf_b p = true -> C14_order.roots_ok_b p ts = true ->
  Forall (fun s => forall c q, n_parent (nd p c) = Some q -> n_kind (nd p q) = KBlock ->
                               C02_order.plain p c = true -> C02_order.plain p q = true -> started (st s c) = true ->
                               lock_acquired (st s q) = true \/ block_ended (st s q) = true \/ completed (st s q) = true)
         (C14_proofs.states p [FVisit 0] (InterpRun.init p) 0 ts).
Proof. intros p ts W. exact (lock_with_injections p W ts). Qed.
Print Assumptions C14_block_bodies_run_only_with_the_lock_with_injections.

(* PARTIAL (interpreter level). Decided by the Coq monitor on the real interpreter: a snippet is inert before its injection;
   with snippets that have no Block / End block(s) the method lines are, tick by tick, exactly where the model's run of the
   same ticks WITHOUT the injections has them; `End block` inside an injected Block ends that block (REFUTED -- known
   finding: get_locked_blocks only sees blocks of the method tree, so an injected Block can never be ended, and an injected
   End block ends the METHOD's innermost block). Not modelled: Pause / Hold (the engine does not tick the interpreter then),
   the command manager's side of injected UOD commands, and live edits, which drop unfinished injected code: the injected
   node is not part of the new program, so its interrupt cannot be re-created (same defect family as C01). *)
Example C14_injected_block_cannot_be_ended_refuted :
  let mk := fun k par ch => {| n_kind := k; n_parent := par; n_children := ch; n_thr := false |} in
  let p := [mk KProgram None [1%nat]; mk KMark (Some 0%nat) [];
            mk KInjected None [3%nat]; mk KBlock (Some 2%nat) [4; 5]%nat; mk KMark (Some 3%nat) []; mk KEndBlock (Some 3%nat) []] in
  let t := {| t_complete := []; t_dt := 1; t_thr_wait := []; t_cond_true := []; t_cond_err := [] |} in
  let ts := [{| j_tick := t; j_inject := [] |}; {| j_tick := t; j_inject := [2%nat] |}] ++ repeat {| j_tick := t; j_inject := [] |} 12 in
  let last := nth 13 (run (p, ts)) (view0 p) in
  completed (C14.vst last 5) = true /\ block_ended (C14.vst last 3) = false /\ completed (C14.vst last 2) = false
  /\ holds_b (p, ts) (run (p, ts)) = false.
Proof. vm_compute. repeat split; reflexivity. Qed.
