(* Shared infrastructure for correspondence runs evaluated inside Coq.
   No proofs here: executable definitions only. *)
From Coq Require Import ZArith List Bool.
Import ListNotations.
Open Scope Z_scope.

(* Strings are lists of Unicode code points. *)
Definition str := list Z.

Fixpoint list_eqb {A} (eqb : A -> A -> bool) (a b : list A) : bool :=
  match a, b with
  | [], [] => true
  | x :: a', y :: b' => eqb x y && list_eqb eqb a' b'
  | _, _ => false
  end.

Definition str_eqb : str -> str -> bool := list_eqb Z.eqb.

Definition option_eqb {A} (eqb : A -> A -> bool) (a b : option A) : bool :=
  match a, b with
  | None, None => true
  | Some x, Some y => eqb x y
  | _, _ => false
  end.

Definition pair_eqb {A B} (ea : A -> A -> bool) (eb : B -> B -> bool)
  (a b : A * B) : bool := ea (fst a) (fst b) && eb (snd a) (snd b).

(* report: indices of cases where the model's output differs from the
   implementation's output, and indices of cases where the property monitor
   is false on the IMPLEMENTATION's output. *)
Section Report.
  Context {I O : Type}.
  Variable run : I -> O.
  Variable out_eqb : O -> O -> bool.
  Variable holds_b : I -> O -> bool.

  Fixpoint report_aux (n : nat) (cs : list (I * O)) (mm vv : list nat)
    : list nat * list nat :=
    match cs with
    | [] => (rev mm, rev vv)
    | (i, o) :: cs' =>
        let mm' := if out_eqb (run i) o then mm else n :: mm in
        let vv' := if holds_b i o then vv else n :: vv in
        report_aux (S n) cs' mm' vv'
    end.

  Definition report (cs : list (I * O)) := report_aux 0 cs [] [].
End Report.
