(* C14: injected code. PInterpreter.inject_node wraps the parsed snippet in an InjectedNode that is NOT part of the method
   tree and registers it as an interrupt; visit_InjectedNode runs the children once and completes. In the model the
   snippets are detached subtrees of the node table (root kind KInjected, parent None, child of nobody), inert until the
   injection registers their root. *)
From Coq Require Import ZArith List Bool Arith.
From OP Require Import lib.Obs model.Interp model.InterpRun.
Import ListNotations.
Open Scope Z_scope.

Record tick_inj := { j_tick : tick_in; j_inject : list nat }.       (* roots injected before this tick *)
Definition input := (program * list tick_inj)%type.
Definition output := InterpRun.output.

Definition inject (p : program) (s : S) (r : nat) : S := register_interrupt p s r.
Fixpoint run_ticks (p : program) (main : stack) (s : S) (now : Z) (ts : list tick_inj) : output :=
  match ts with
  | [] => []
  | j :: ts' =>
      let t := j_tick j in
      let s0 := fold_left (complete_cmd p) (t_complete t) s in
      let s1 := fold_left (inject p) (j_inject j) s0 in
      let now' := now + 5 * t_dt t in
      let e := {| e_time := now'; e_thr_wait := t_thr_wait t; e_cond_true := t_cond_true t; e_cond_err := t_cond_err t |} in
      match tick p (rounds_of p) (fuel_of p) e main s1 with
      | None => []
      | Some (main', s2, raised) =>
          {| v_nodes := nodes s2; v_ints := map fst (ints s2); v_block := block_tag s2; v_sched := scheduled s2;
             v_raised := raised; v_error := last_error s2 |} :: run_ticks p main' s2 now' ts'
      end
  end.
Definition run (i : input) : output := run_ticks (fst i) [FVisit 0%nat] (init (fst i)) 0 (snd i).
Definition out_eqb := InterpRun.out_eqb.

(* ---------- the property on the observation ---------- *)
Section Mon.
  Variable p : program.
  Definition vst (v : view) (n : nat) : ns := nth n (v_nodes v) ns0.
  (* the injected subtrees: nodes whose chain of parents ends in a KInjected root *)
  Definition root_of (n : nat) : nat := match rev (ancestors p n) with r :: _ => r | [] => n end.
  Definition injected_node (n : nat) : bool := match n_kind (nd p (root_of n)) with KInjected => true | _ => false end.
  Definition is_alarm (n : nat) : bool := match n_kind (nd p n) with KAlarm | KMacro _ => true | _ => false end.
  Definition in_alarm (n : nat) : bool := is_alarm n || existsb is_alarm (ancestors p n).
  Definition is_blank (n : nat) : bool := match n_kind (nd p n) with KBlank _ => true | _ => false end.
  Definition all_nodes := seq 0 (length p).
  (* injected code runs once: an injected line that has started stays started, one that has completed stays completed,
     and nothing of a snippet runs before its injection *)
  Definition once_ok (u v : view) : bool :=
    forallb (fun n => negb (injected_node n) || in_alarm n || is_blank n
                      || ((negb (started (vst u n)) || started (vst v n)) && (negb (completed (vst u n)) || completed (vst v n)))) all_nodes.
  (* an injected line is completed by running: a line that is completed has started (it was not skipped) *)
  Definition ran_ok (v : view) : bool :=
    forallb (fun n => negb (injected_node n) || is_blank n || negb (completed (vst v n)) || started (vst v n) || failed (vst v n)) all_nodes.
  Definition inert_ok (injected : list nat) (v : view) : bool :=
    forallb (fun n => negb (injected_node n) || existsb (Nat.eqb (root_of n)) injected
                      || (negb (started (vst v n)) && negb (completed (vst v n)))) all_nodes.
  (* the method lines are where they would be without the injection (w: the view of the injection-free run) *)
  Definition method_ok (w v : view) : bool :=
    forallb (fun n => injected_node n
                      || (Bool.eqb (started (vst v n)) (started (vst w n)) && Bool.eqb (completed (vst v n)) (completed (vst w n)))) all_nodes.
  (* `End block` written inside an injected Block ends that block: once the End block line has completed, its enclosing
     injected block has ended *)
  Definition nearest_block (n : nat) : option nat := find (is_block p) (ancestors p n).
  Definition inj_end_ok (v : view) : bool :=
    forallb (fun n => match n_kind (nd p n), nearest_block n with
                      | KEndBlock, Some b => negb (injected_node n) || negb (completed (vst v n)) || block_ended (vst v b)
                      | _, _ => true
                      end) all_nodes.
  Definition view0 : view := {| v_nodes := repeat ns0 (length p); v_ints := []; v_block := None; v_sched := 0%nat; v_raised := false; v_error := None |}.
  Fixpoint walk (compare : bool) (u : view) (inj : list nat) (ts : list tick_inj) (ws vs : output) : bool :=
    match ts, vs with
    | j :: ts', v :: vs' =>
        let inj' := inj ++ j_inject j in
        once_ok u v && inert_ok inj' v && inj_end_ok v && ran_ok v
        && match ws with
           | w :: ws' => (negb compare || method_ok w v) && walk compare v inj' ts' ws' vs'
           | [] => walk compare v inj' ts' [] vs'
           end
    | _, _ => true
    end.
  (* snippets without Block / End block / End blocks cannot hold or end the block lock: only then must the method be
     untouched tick by tick *)
  Definition plain_snippets : bool :=
    forallb (fun n => negb (injected_node n)
                      || match n_kind (nd p n) with KBlock | KEndBlock | KEndBlocks | KError => false | _ => true end) all_nodes.
End Mon.
Definition holds_b (i : input) (o : output) : bool :=
  let p := fst i in
  let free := InterpRun.run (p, map j_tick (snd i)) in           (* the model's run of the same ticks without injections *)
  (* hypotheses of the scope theorem (props/C14.v), evaluated on every case: a well-formed node table, injected roots
     without parent *)
  wf_b p
  && forallb (fun j => forallb (fun r => match n_parent (nd p r) with None => true | Some _ => false end) (j_inject j)) (snd i)
  && walk p (plain_snippets p) (view0 p) [] (snd i) free o.
