(* Model of the csv dialect used by the engine's local run archive (openpectus/engine/archiver.py:
   csv.writer(delimiter=',', quoting=QUOTE_NONE, escapechar='\\'), default line terminator "\r\n")
   and of csv.reader with the same dialect, on code-point strings. *)
From Coq Require Import ZArith List Bool.
From OP Require Import lib.Obs.
Import ListNotations.
Open Scope Z_scope.

Definition comma : Z := 44. Definition backslash : Z := 92. Definition dquote : Z := 34.
Definition cr : Z := 13. Definition lf : Z := 10.

Definition is_newline (c : Z) : bool := (c =? cr) || (c =? lf).
(* characters the writer escapes under QUOTE_NONE: delimiter, escapechar, quotechar, line terminator chars *)
Definition needs_escape (c : Z) : bool :=
  (c =? comma) || (c =? backslash) || (c =? dquote) || is_newline c.

Fixpoint esc_field (f : str) : str :=
  match f with
  | [] => []
  | c :: f' => if needs_escape c then backslash :: c :: esc_field f' else c :: esc_field f'
  end.

Fixpoint join_fields (fs : list str) : str :=
  match fs with
  | [] => []
  | [f] => esc_field f
  | f :: fs' => esc_field f ++ comma :: join_fields fs'
  end.

(* writerow: None = csv.Error("single empty field record must be quoted") *)
Definition write_row (fs : list str) : option str :=
  match fs with
  | [[]] => None
  | _ => Some (join_fields fs ++ [cr; lf])
  end.

Fixpoint write_rows (rows : list (list str)) : str :=
  match rows with
  | [] => []
  | r :: rows' => match write_row r with Some t => t | None => [] end ++ write_rows rows'
  end.

(* ---- reader ---- *)
Inductive rstate := R | F | E | N.       (* start of record / in field / after escapechar / eating CR LF *)

(* accumulators: current field (reversed), current record (reversed), finished records (reversed) *)
Fixpoint rd (st : rstate) (text : str) (fld : str) (rec : list str) (out : list (list str)) : list (list str) :=
  match text with
  | [] =>
      match st with
      | F | E => rev (rev (rev fld :: rec) :: out)       (* last line without terminator *)
      | R | N => rev out
      end
  | c :: text' =>
      match st with
      | E => rd F text' (c :: fld) rec out
      | F =>
          if is_newline c then rd N text' [] [] (rev (rev fld :: rec) :: out)
          else if c =? backslash then rd E text' fld rec out
          else if c =? comma then rd F text' [] (rev fld :: rec) out
          else rd F text' (c :: fld) rec out
      | R | N =>
          if is_newline c then rd N text' [] [] out
          else if c =? backslash then rd E text' [] [] out
          else if c =? comma then rd F text' [] [[]] out
          else rd F text' [c] [] out
      end
  end.

Definition read_rows (text : str) : list (list str) := rd R text [] [] [].

(* ---- ArchiverTag header / row assembly: one column per tag whose archive() is not None ---- *)
Definition header_row (names : list (str * bool)) : list str :=      (* (column title, archived?) *)
  [68; 97; 116; 101] :: map fst (filter snd names).                   (* "Date" stands for the time column *)
Definition data_row (now : str) (values : list (str * bool)) : list str :=
  now :: map fst (filter snd values).

(* ---------- correspondence interface ---------- *)
Definition input := list (list str).                    (* rows as the archiver hands them to writerow *)
Definition output := (list (option str) * list (list str))%type.
   (* text written per row (None = csv.Error), rows read back from the whole file *)

Definition run (i : input) : output := (map write_row i, read_rows (write_rows i)).

Definition rows_eqb : list (list str) -> list (list str) -> bool := list_eqb (list_eqb str_eqb).
Definition out_eqb (a b : output) : bool :=
  list_eqb (option_eqb str_eqb) (fst a) (fst b) && rows_eqb (snd a) (snd b).

Definition no_newline (f : str) : bool := negb (existsb is_newline f).
Definition row_ok (r : list str) : bool :=
  match r with [] => false | [[]] => false | _ => forallb no_newline r end.

(* monitor: what is read back is what was archived (rows the writer accepted, without CR/LF) *)
Definition holds_b (i : input) (o : output) : bool :=
  if forallb row_ok i then rows_eqb (snd o) i else true.
