(* Correspondence interface of the interpreter model (shared by C02 - C05). *)
From Coq Require Import ZArith List Bool Arith.
From OP Require Import lib.Obs model.Interp.
Import ListNotations.
Open Scope Z_scope.

Record tick_in := { t_complete : list nat; t_dt : Z; t_thr_wait : list nat; t_cond_true : list nat; t_cond_err : list nat }.
Definition input := (program * list tick_in)%type.

Record view := {
  v_nodes : list ns;
  v_ints : list nat;                 (* the interrupt map: node ids in dict order *)
  v_block : option nat;              (* the Block tag: the block it names *)
  v_sched : nat;                     (* commands handed to the engine in this tick *)
  v_raised : bool;                   (* tick raised *)
  v_error : option nat }.            (* the node of the recorded error *)
Definition output := list view.

(* the method tree is well formed: child lists and parent pointers agree and the root has no parent (hypothesis of the
   order theorems, evaluated by the monitors on every method) *)
Definition wf_b (p : program) : bool :=
  forallb (fun q => forallb (fun c => match n_parent (nd p c) with Some q' => Nat.eqb q' q | None => false end) (n_children (nd p q)))
          (seq 0 (length p))
  && match n_parent (nd p 0) with None => true | Some _ => false end.

Definition fuel_of (p : program) : nat := 40 + 12 * length p.
Definition rounds_of (p : program) : nat := 20 + 6 * length p.

Definition init (p : program) : S :=
  {| nodes := repeat ns0 (length p); ints := []; serial := 0; last_error := None; block_tag := None; scheduled := 0; marks := []; macros := [] |}.

Fixpoint run_ticks (p : program) (main : stack) (s : S) (now : Z) (ts : list tick_in) : output :=
  match ts with
  | [] => []
  | t :: ts' =>
      let s1 := fold_left (complete_cmd p) (t_complete t) s in
      let now' := now + 5 * t_dt t in
      let e := {| e_time := now'; e_thr_wait := t_thr_wait t; e_cond_true := t_cond_true t; e_cond_err := t_cond_err t |} in
      match tick p (rounds_of p) (fuel_of p) e main s1 with
      | None => []                                                   (* out of fuel: shows as a length mismatch *)
      | Some (main', s2, raised) =>
          {| v_nodes := nodes s2; v_ints := map fst (ints s2); v_block := block_tag s2; v_sched := scheduled s2;
             v_raised := raised; v_error := last_error s2 |} :: run_ticks p main' s2 now' ts'
      end
  end.
Definition run (i : input) : output := run_ticks (fst i) [FVisit 0] (init (fst i)) 0 (snd i).

Definition ns_eqb (a b : ns) : bool :=
  Bool.eqb (started a) (started b) && Bool.eqb (completed a) (completed b) && Bool.eqb (failed a) (failed b)
  && Nat.eqb (child_index a) (child_index b) && Bool.eqb (children_complete a) (children_complete b)
  && Bool.eqb (lock_acquired a) (lock_acquired b) && Bool.eqb (block_ended a) (block_ended b)
  && Bool.eqb (activated a) (activated b) && Bool.eqb (interrupt_registered a) (interrupt_registered b)
  && Nat.eqb (run_count a) (run_count b).
Definition view_eqb (a b : view) : bool :=
  list_eqb ns_eqb (v_nodes a) (v_nodes b) && list_eqb Nat.eqb (v_ints a) (v_ints b)
  && option_eqb Nat.eqb (v_block a) (v_block b) && Nat.eqb (v_sched a) (v_sched b) && Bool.eqb (v_raised a) (v_raised b)
  && option_eqb Nat.eqb (v_error a) (v_error b).
Definition out_eqb : output -> output -> bool := list_eqb view_eqb.
