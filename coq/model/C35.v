(* Model of AggregatedErrorLog.aggregate_with (openpectus/aggregator/models.py).
   Executable definitions only. *)
From Coq Require Import ZArith List Bool.
From OP Require Import lib.Obs.
Import ListNotations.
Open Scope Z_scope.

Record entry := { e_msg : Z; e_sev : Z; e_time : Z }.
Record agg := { a_msg : Z; a_sev : Z; a_time : Z; a_occ : Z }.

Definition from_entry (e : entry) : agg :=
  {| a_msg := e_msg e; a_sev := e_sev e; a_time := e_time e; a_occ := 1 |}.

Definition same_key (a : agg) (e : entry) : bool :=
  (e_msg e =? a_msg a) && (e_sev e =? a_sev a).

(* What one loop iteration of aggregate_with did with the entry. *)
Inductive kind := New | Merged | Redelivered | Earlier.

(* The log is kept NEWEST FIRST; Python's list is the reverse. `latest` in the
   Python loop is always the last element of self.entries. *)
Definition step (log : list agg) (e : entry) : list agg * kind :=
  match log with
  | a :: rest =>
      if same_key a e then
        if a_time a <? e_time e then
          ({| a_msg := a_msg a; a_sev := a_sev a; a_time := e_time e; a_occ := a_occ a + 1 |} :: rest, Merged)
        else if a_time a =? e_time e then (log, Redelivered)
        else (log, Earlier)
      else (from_entry e :: log, New)
  | [] => ([from_entry e], New)
  end.

Definition step_log (log : list agg) (e : entry) : list agg := fst (step log e).

(* aggregate_with applied to one batch *)
Definition aggregate (log : list agg) (es : list entry) : list agg :=
  fold_left step_log es log.

(* a sequence of batches, as successive aggregate_with calls *)
Definition aggregate_batches (log : list agg) (bs : list (list entry)) : list agg :=
  fold_left aggregate bs log.

(* ---------- correspondence interface ---------- *)
(* a run of the engine = a sequence of aggregate_with calls; between two runs EngineData.reset_run calls
   AggregatedErrorLog.clear(), after which the log is empty *)
Definition clear (log : list agg) : list agg := [].
Definition segment := list (list (Z * Z * Z)).        (* batches of (msg, sev, time) *)
Definition input := list segment.                     (* clear() between consecutive segments *)
Definition seg_output := list (Z * Z * Z * Z).        (* oldest first: msg, sev, time, occ *)
Definition output := list seg_output.                 (* the log at the end of every segment *)

Definition mk_entry (t : Z * Z * Z) : entry :=
  let '(m, s, t) := t in {| e_msg := m; e_sev := s; e_time := t |}.
Definition out_of (log : list agg) : seg_output :=
  map (fun a => (a_msg a, a_sev a, a_time a, a_occ a)) (rev log).

Fixpoint run_from (log : list agg) (i : input) : output :=
  match i with
  | [] => []
  | seg :: i' =>
      let log' := aggregate_batches log (map (map mk_entry) seg) in
      out_of log' :: run_from (clear log') i'
  end.
Definition run (i : input) : output := run_from [] i.

Definition q4_eqb (a b : Z * Z * Z * Z) : bool :=
  let '(a1, a2, a3, a4) := a in let '(b1, b2, b3, b4) := b in
  (a1 =? b1) && (a2 =? b2) && (a3 =? b3) && (a4 =? b4).
Definition seg_eqb : seg_output -> seg_output -> bool := list_eqb q4_eqb.
Definition out_eqb : output -> output -> bool := list_eqb seg_eqb.

(* ---------- specification, as a function of the flattened stream ---------- *)
(* group_runs: one output row per maximal run of equal (msg, sev); time = last
   strictly larger time seen, occurrences = 1 + number of strict increases. *)
Fixpoint group_runs_aux (cur : agg) (es : list entry) : list agg :=
  match es with
  | [] => [cur]
  | e :: es' =>
      if same_key cur e then
        group_runs_aux
          (if a_time cur <? e_time e
           then {| a_msg := a_msg cur; a_sev := a_sev cur; a_time := e_time e; a_occ := a_occ cur + 1 |}
           else cur) es'
      else cur :: group_runs_aux (from_entry e) es'
  end.
Definition group_runs (es : list entry) : list agg :=   (* oldest first *)
  match es with [] => [] | e :: es' => group_runs_aux (from_entry e) es' end.

(* monitor on the implementation's output: every segment's log must be group_runs of that segment's
   stream (nothing carried over a clear) *)
Definition holds_b (i : input) (o : output) : bool :=
  out_eqb o (map (fun seg => map (fun a => (a_msg a, a_sev a, a_time a, a_occ a))
                                 (group_runs (map mk_entry (concat seg)))) i).
