(* C30 interface: aggregator bookkeeping model + monitor "one recent run and one plot log per run". *)
From Coq Require Import ZArith List Bool Arith.
From OP Require Import lib.Obs model.C29.
From OP Require Export model.Agg.
Import ListNotations.
Open Scope Z_scope.

Definition input := Agg.input.
Definition output := Agg.output.
Definition run : input -> output := Agg.run.
Definition out_eqb : output -> output -> bool := Agg.out_eqb.

Definition holds_b (i : input) (o : output) : bool :=
  forallb (fun v : obs1 => let '(_, rr, pl, _) := v in nodup_b er_eqb rr && nodup_b er_eqb pl) o.
