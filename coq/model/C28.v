(* C28 interface: aggregator bookkeeping model + monitor "a run survives reconnects and restarts". *)
From Coq Require Import ZArith List Bool Arith.
From OP Require Import lib.Obs model.C29.
From OP Require Export model.Agg.
Import ListNotations.
Open Scope Z_scope.

Definition input := Agg.input.
Definition output := Agg.output.
Definition run : input -> output := Agg.run.
Definition out_eqb : output -> output -> bool := Agg.out_eqb.

Definition lookup_run (v : list (eid * option (rid * Z))) (e : eid) : option (option (rid * Z)) :=
  match find (fun x => Nat.eqb (fst x) e) v with Some x => Some (snd x) | None => None end.

(* lost: for engines whose in-memory data went away (disconnect / restart / crash), the run they
   were in at that moment *)
Fixpoint monitor (lost : list (eid * option (rid * Z))) (prev : obs1) (os : list op) (o : output) : bool :=
  match os, o with
  | op1 :: os', cur :: o' =>
      let '(pe, _, _, prow) := prev in
      let '(ce, _, _, crow) := cur in
      let lost' :=
        match op1 with
        | Disconnect e => match lookup_run pe e with Some r => (e, r) :: lost | None => lost end
        | Restart | Crash => pe ++ lost
        | _ => lost end in
      let ok :=
        match op1 with
        | Register e =>
            match lookup_run pe e with
            | Some _ => true                                   (* already registered *)
            | None =>
                match lookup_run lost e with
                | Some (Some rt) => option_eqb (option_eqb rt_eqb) (lookup_run ce e) (Some (Some rt))
                | Some None => option_eqb (option_eqb rt_eqb) (lookup_run ce e) (Some None)   (* no finished run comes back *)
                | None => true
                end
            end
        | Tags e (Some r) _ =>
            (* rows added by this message belong to the plot log of the message's run *)
            forallb (fun w : eid * rid * (tname * Z * Z) => er_eqb (fst w) (e, r)) (skipn (length prow) crow)
        | _ => true
        end in
      ok && monitor lost' cur os' o'
  | [], [] => true
  | _, _ => false
  end.

Definition holds_b (i : input) (o : output) : bool :=
  let '(_, _, os) := i in monitor [] ([], [], [], []) os o.
