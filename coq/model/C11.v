(* C11: command exclusivity and init/finalize pairing.
   Monitor on the init / exec / finalize calls of the instrumented UOD commands and the run boundaries of the real engine. *)
From Coq Require Import ZArith List Bool Arith.
From OP Require Import lib.Obs model.Eng model.EngRun.
Import ListNotations.
Open Scope Z_scope.

Definition input := EngRun.input.
Definition output := EngRun.output.
Definition run := EngRun.run.
Definition out_eqb := EngRun.out_eqb.

Definition key := (nat * nat)%type.           (* command name, instance id *)
Definition key_eqb (a b : key) : bool := Nat.eqb (fst a) (fst b) && Nat.eqb (snd a) (snd b).
Definition memk (k : key) (l : list key) : bool := existsb (key_eqb k) l.
Definition has_name (n : nat) (l : list key) : bool := existsb (fun k => Nat.eqb (fst k) n) l.
Definition conflict (ov : list (list nat)) (a b : nat) : bool := Nat.eqb a b || overlapping ov a b.

Record st11 := {
  live : list key;            (* initialised and not yet finalized *)
  superseded : list key;      (* live instances a conflicting newer instance has been initialised over *)
  dead : list nat }.          (* ids of finalized instances *)
Definition st11_0 : st11 := {| live := []; superseded := []; dead := [] |}.

(* strict = the property. non-strict = the part proved of the model for all executions: instance life cycle per
   command name (init once, exec only between init and finalize, one instance of a command at a time). *)
Definition ev11 (strict : bool) (ov : list (list nat)) (s : st11) (x : ev) : option st11 :=
  match x with
  | EUInit n id =>
      if has_name n (live s) then None                                     (* a second instance of the same command *)
      else if strict && (memn id (dead s)) then None                       (* an instance initialised again *)
      else Some {| live := (n, id) :: live s;
                   superseded := if strict then filter (fun k => conflict ov (fst k) n) (live s) ++ superseded s else [];
                   dead := dead s |}
  | EUExec n id _ =>
      if negb (memk (n, id) (live s)) then None                            (* executes without init / after finalize *)
      else if strict && memk (n, id) (superseded s) then None              (* the older of two conflicting commands runs on *)
      else Some s
  | EUFinal n id =>
      if strict && memn id (dead s) then None                              (* finalized twice *)
      else Some {| live := filter (fun k => negb (key_eqb k (n, id))) (live s);
                   superseded := filter (fun k => negb (key_eqb k (n, id))) (superseded s);
                   dead := if strict then id :: dead s else [] |}
  | EStoppedRun =>
      if strict then match live s with [] => Some s | _ => None end        (* the run stops: everything finalized *)
      else Some s
  | _ => Some s
  end.

Fixpoint mon11 (strict : bool) (ov : list (list nat)) (s : st11) (evs : list ev) : option st11 :=
  match evs with
  | [] => Some s
  | x :: r => match ev11 strict ov s x with Some s' => mon11 strict ov s' r | None => None end
  end.

Fixpoint walk (ov : list (list nat)) (s : st11) (vs : output) : bool :=
  match vs with
  | [] => true
  | v :: vs' =>
      match mon11 true ov s (v_events v) with
      | Some s' =>
          (* the instances the engine holds are exactly the live ones *)
          forallb (fun k => memk k (v_uods v)) (live s') && forallb (fun k => memk k (live s')) (v_uods v) && walk ov s' vs'
      | None => false
      end
  end.

Definition holds_b (i : input) (o : output) : bool := walk (c_overlaps (fst i)) st11_0 o.
