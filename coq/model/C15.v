(* C15: the run log is always producible and well-formed.
   Model of RuntimeInfo.get_runlog / _get_record_runlog_items / _split_states_by_instance_id / _check_record_states_ordered
   (openpectus/lang/exec/runlog.py): the distillation of runtime records (per node: the list of tracking states) into run
   log items. Progress and tag values are not modelled. *)
From Coq Require Import ZArith List Bool Arith.
From OP Require Import lib.Obs.
Import ListNotations.
Open Scope Z_scope.

Inductive sname := SCreated | SAwaitingThreshold | SAwaitingCondition | SStarted | SUodCommandSet | SInternalCommandSet
                 | SCancelled | SForced | SCompleted | SFailed.
Record rstate := { s_name : sname; s_inst : nat; s_time : Z; s_tick : Z;
                   s_cancellable : bool; s_cancelled : bool; s_forcible : bool; s_forced : bool }.
Inductive rclass := CSkipped           (* ProgramNode, BlankNode, CommentNode, InjectedNode *)
                  | CNull              (* NullNode records are filtered out by records_filtered *)
                  | CError             (* ErrorInstructionNode *)
                  | COther.
Inductive rname := NNone | NStop | NName.
Record record := { r_class : rclass; r_name : rname; r_states : list rstate }.

Inductive istate := IUnknown | IAwaitingThreshold | IStarted | ICancelled | IForced | ICompleted | IFailed.
Record item := { i_id : nat; i_state : istate; i_start : Z; i_end : option Z;
                 i_cancellable : bool; i_cancelled : bool; i_forcible : bool; i_forced : bool; i_failed : bool }.

Definition conclusive (n : sname) : bool := match n with SCompleted | SFailed | SCancelled => true | _ => false end.

(* _split_states_by_instance_id: a dict keyed by instance id, in order of first appearance *)
Fixpoint add_state (g : list (nat * list rstate)) (s : rstate) : list (nat * list rstate) :=
  match g with
  | [] => [(s_inst s, [s])]
  | (k, l) :: g' => if Nat.eqb k (s_inst s) then (k, l ++ [s]) :: g' else (k, l) :: add_state g' s
  end.
Definition split_states (l : list rstate) : list (list rstate) := map snd (fold_left add_state l []).

(* _check_record_states_ordered(raise_if_unordered=True) *)
Fixpoint ordered (l : list rstate) : bool :=
  match l with
  | a :: ((b :: _) as l') => (s_tick a <=? s_tick b) && (s_time a <=? s_time b) && ordered l'
  | _ => true
  end.

Record acc := { a_items : list item; a_item : option item; a_concluded : bool; a_cmd : option bool }.

(* an item that has an end time is concluded (possibly by an earlier state): neither cancellable nor forcible *)
Definition finalize (it : item) : item :=
  match i_end it with
  | Some _ => {| i_id := i_id it; i_state := i_state it; i_start := i_start it; i_end := i_end it;
                 i_cancellable := false; i_cancelled := i_cancelled it; i_forcible := false;
                 i_forced := i_forced it; i_failed := i_failed it |}
  | None => it
  end.

(* one state of an invocation; None = AssertionError("Error generating runlog") *)
Definition step (a : acc) (s : rstate) (is_start has_more : bool) : option acc :=
  (* a state after a conclusive state of the same invocation re-opens the item already emitted *)
  let '(items0, item0) :=
    match a_item a, a_concluded a with
    | None, true => (removelast (a_items a), match a_items a with [] => None | _ => Some (last (a_items a)
                        {| i_id := 0; i_state := IUnknown; i_start := 0; i_end := None; i_cancellable := false; i_cancelled := false;
                           i_forcible := false; i_forced := false; i_failed := false |}) end)
    | it, _ => (a_items a, it)
    end in
  let item1 := if is_start
               then Some {| i_id := s_inst s; i_state := IStarted; i_start := s_time s; i_end := None; i_cancellable := false;
                            i_cancelled := false; i_forcible := false; i_forced := false; i_failed := false |}
               else item0 in
  match item1 with
  | None => None
  | Some it =>
      let st := match s_name s with
                | SCompleted => ICompleted | SFailed => IFailed | SCancelled => ICancelled | SForced => IForced
                | SAwaitingThreshold => IAwaitingThreshold | _ => i_state it
                end in
      let cmd := match s_name s with SUodCommandSet => Some true | SInternalCommandSet => Some false | _ => a_cmd a end in
      let canc := if conclusive (s_name s) then false
                  else match cmd with Some true => true | _ => s_cancellable s end in
      let it' := {| i_id := i_id it; i_state := st; i_start := i_start it;
                    i_end := if conclusive (s_name s) then Some (s_time s) else i_end it;
                    i_cancellable := canc; i_cancelled := s_cancelled s;
                    i_forcible := if conclusive (s_name s) then false else s_forcible s; i_forced := s_forced s;
                    i_failed := match s_name s with SFailed => true | _ => i_failed it end |} in
      if negb has_more || conclusive (s_name s) then
        match st with
        | IUnknown | IAwaitingThreshold => Some {| a_items := items0; a_item := Some it'; a_concluded := false; a_cmd := cmd |}
        | _ => Some {| a_items := items0 ++ [finalize it']; a_item := None; a_concluded := true; a_cmd := None |}
        end
      else Some {| a_items := items0; a_item := Some it'; a_concluded := false; a_cmd := cmd |}
  end.

Fixpoint invocation (a : acc) (l : list rstate) (is_start : bool) : option acc :=
  match l with
  | [] => Some a
  | s :: l' => match step a s is_start (match l' with [] => false | _ => true end) with
               | Some a' => invocation a' l' false
               | None => None
               end
  end.

Fixpoint invocations (items : list item) (gs : list (list rstate)) : option (list item) :=
  match gs with
  | [] => Some items
  | g :: gs' =>
      if negb (ordered g) then None
      else match invocation {| a_items := items; a_item := None; a_concluded := false; a_cmd := None |} g true with
           | Some a => invocations (a_items a) gs'
           | None => None
           end
  end.

Definition record_items (r : record) : option (list item) :=
  match r_class r, r_name r with
  | CSkipped, _ => Some []
  | _, NNone => Some []
  | _, NStop => Some []
  | _, NName => invocations [] (split_states (r_states r))
  end.

(* list.sort(key=start): stable insertion sort *)
Fixpoint insert (x : item) (l : list item) : list item :=
  match l with
  | [] => [x]
  | y :: l' => if i_start y <=? i_start x then y :: insert x l' else x :: y :: l'
  end.
Definition sort_items (l : list item) : list item := fold_left (fun acc x => insert x acc) l [].

Fixpoint all_items (rs : list record) : option (list item) :=
  match rs with
  | [] => Some []
  | r :: rs' => match r_class r with
                | CNull => all_items rs'
                | _ => match record_items r, all_items rs' with
                       | Some a, Some b => Some (a ++ b)
                       | _, _ => None
                       end
                end
  end.
Definition get_runlog (rs : list record) : option (list item) := option_map sort_items (all_items rs).

(* ---------- correspondence interface ---------- *)
Inductive input :=
| IRecords (rs : list record)                     (* synthetic records through the real distillation *)
| IExec (dummy : nat).                            (* a real engine execution: the run logs it produced are the observation *)
Inductive output :=
| ORunlog (r : option (list item))
| OExec (logs : list (option (list item))).       (* get_runlog after every operation (None = it raised) *)
Definition run (i : input) : output := match i with IRecords rs => ORunlog (get_runlog rs) | IExec _ => OExec [] end.

Definition istate_eqb (a b : istate) : bool :=
  match a, b with
  | IUnknown, IUnknown | IAwaitingThreshold, IAwaitingThreshold | IStarted, IStarted | ICancelled, ICancelled
  | IForced, IForced | ICompleted, ICompleted | IFailed, IFailed => true
  | _, _ => false
  end.
Definition item_eqb (a b : item) : bool :=
  Nat.eqb (i_id a) (i_id b) && istate_eqb (i_state a) (i_state b) && (i_start a =? i_start b)
  && option_eqb Z.eqb (i_end a) (i_end b) && Bool.eqb (i_cancellable a) (i_cancellable b)
  && Bool.eqb (i_cancelled a) (i_cancelled b) && Bool.eqb (i_forcible a) (i_forcible b) && Bool.eqb (i_forced a) (i_forced b)
  && Bool.eqb (i_failed a) (i_failed b).
Definition out_eqb (a b : output) : bool :=
  match a, b with
  | ORunlog x, ORunlog y => option_eqb (list_eqb item_eqb) x y
  | OExec _, OExec _ => true                      (* no model of the tracking calls of an execution: monitor only *)
  | _, _ => false
  end.

(* ---------- the property on a produced run log ---------- *)
Definition concluded (s : istate) : bool := match s with ICompleted | IFailed | ICancelled => true | _ => false end.
Fixpoint sorted_by_start (l : list item) : bool :=
  match l with a :: ((b :: _) as l') => (i_start a <=? i_start b) && sorted_by_start l' | _ => true end.
Fixpoint distinct_ids (l : list item) : bool :=
  match l with [] => true | a :: l' => negb (existsb (fun b => Nat.eqb (i_id a) (i_id b)) l') && distinct_ids l' end.
Definition item_ok (it : item) : bool :=
  (match i_end it with Some e => i_start it <=? e | None => true end)
  && (if concluded (i_state it)
      then (match i_end it with Some _ => true | None => false end) && negb (i_cancellable it) && negb (i_forcible it)
      else true).
Definition runlog_ok (l : list item) : bool := sorted_by_start l && distinct_ids l && forallb item_ok l.

Definition ordered_record (r : record) : bool :=
  match r_class r, r_name r with
  | (CNull | CError | COther), NName => forallb ordered (split_states (r_states r))
  | _, _ => true                                                        (* records that yield no items are not examined *)
  end.
Definition holds_b (i : input) (o : output) : bool :=
  match i, o with
  | IRecords rs, ORunlog None =>                                         (* it may refuse only unordered state lists *)
      negb (forallb (fun r => match r_class r with CNull => true | _ => ordered_record r end) rs)
  | IRecords rs, ORunlog (Some l) => runlog_ok l                          (* instance ids are distinct across the generated records *)
  | IExec _, OExec logs => forallb (fun x => match x with Some l => runlog_ok l | None => false end) logs
  | _, _ => false
  end.
