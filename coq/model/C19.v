(* C19: method analysis never crashes and flags undefined names.
   Model of the decision logic of ConditionCheckAnalyzer.analyze_condition, SimulateCheckAnalyzer (Simulate / Simulate
   off) and CommandCheckAnalyzer.check_command_node (openpectus/lang/exec/analyzer.py) over the facts they test. The
   facts are computed from the real parsed node and the real tag / command collections by the harness. *)
From Coq Require Import List Bool Arith.
From OP Require Import lib.Obs.
Import ListNotations.

Inductive diag := DNone | DConditionMissing | DAssignmentMissing | DMissingTag | DSuggestTag | DUndefinedTag | DMissingOperator
                | DMissingValue | DUnexpectedUnit | DMissingUnit | DInvalidUnit | DIncompatibleUnits
                | DSuggestCommand | DUndefinedCommand | DCommandNoArguments | DCommandArgsInvalid
                | DMisplaced                                    (* reported, but not as an error on the offending line *)
                | DCrash.                                       (* the analyzer raises *)

(* name lookup with spelling suggestion: shared by all three analyzers *)
Record lookup := { l_defined : bool; l_long : bool;             (* len(name) > 2 *)
                   l_any : bool;                                (* the collection has names *)
                   l_similar : bool }.                          (* the best Levenshtein ratio exceeds 0.7 *)
Inductive lres := LFound | LSuggest | LUnknown.
Definition resolve (l : lookup) : lres :=
  if l_defined l then LFound else if l_long l && l_any l && l_similar l then LSuggest else LUnknown.
(* the code before the /repo fix: a long undefined name without a close match fell through *)
Inductive lres_old := OFound | OSuggest | OUnknown | OFallThrough.
Definition resolve_old (l : lookup) : lres_old :=
  if l_defined l then OFound
  else if l_long l && l_any l then (if l_similar l then OSuggest else OFallThrough) else OUnknown.

Record cond := {
  c_present : bool;          (* tag_operator_value is not None *)
  c_tag_blank : bool;        (* no tag name *)
  c_lookup : lookup;
  c_op_ok : bool;            (* condition: op != "" ; simulate: op == "=" *)
  c_value_empty : bool;      (* rhs == "" or tag_value == "" *)
  c_tag_unit : bool;         (* the tag has a unit *)
  c_cond_unit : bool;        (* the condition names a unit *)
  c_rhs_is_unit : bool;      (* the whole right-hand side is one of the tag's compatible units *)
  c_unit_error : bool;       (* are_comparable raises ValueError: unknown unit *)
  c_comparable : bool }.

Definition unit_checks (c : cond) : diag :=
  if negb (c_tag_unit c) && c_cond_unit c then DUnexpectedUnit
  else if c_tag_unit c && c_rhs_is_unit c && negb (c_cond_unit c) then DMissingValue
  else if c_tag_unit c && negb (c_cond_unit c) then DMissingUnit
  else if c_tag_unit c then (if c_unit_error c then DInvalidUnit else if c_comparable c then DNone else DIncompatibleUnits)
  else DNone.

Definition analyze_tagged (missing : diag) (c : cond) : diag :=
  if negb (c_present c) then missing
  else if c_tag_blank c then DMissingTag
  else match resolve (c_lookup c) with
       | LSuggest => DSuggestTag
       | LUnknown => DUndefinedTag
       | LFound =>
           if negb (c_op_ok c) then DMissingOperator
           else if c_value_empty c then DMissingValue
           else unit_checks c
       end.
Definition analyze_condition := analyze_tagged DConditionMissing.
Definition analyze_simulate := analyze_tagged DAssignmentMissing.

Definition analyze_condition_old (c : cond) : diag :=
  if negb (c_present c) then DConditionMissing
  else if c_tag_blank c then DMissingTag
  else match resolve_old (c_lookup c) with
       | OSuggest => DSuggestTag
       | OUnknown => DUndefinedTag
       | OFallThrough =>
           if negb (c_op_ok c) then DMissingOperator else if c_value_empty c then DMissingValue
           else DCrash                                             (* tags.get(tag_name) raises ValueError *)
       | OFound =>
           if negb (c_op_ok c) then DMissingOperator else if c_value_empty c then DMissingValue else unit_checks c
       end.

Record simoff := { o_blank : bool; o_lookup : lookup }.
Definition analyze_simoff (o : simoff) : diag :=
  if o_blank o then DMissingTag
  else match resolve (o_lookup o) with LFound => DNone | LSuggest => DSuggestTag | LUnknown => DUndefinedTag end.

Record cmd := { k_lookup : lookup; k_noargs_with_arg : bool; k_args_valid : bool }.
Definition analyze_command (k : cmd) : diag :=
  match resolve (k_lookup k) with
  | LSuggest => DSuggestCommand
  | LUnknown => DUndefinedCommand
  | LFound => if k_noargs_with_arg k then DCommandNoArguments else if k_args_valid k then DNone else DCommandArgsInvalid
  end.

(* ---------- correspondence interface ---------- *)
Inductive line := LCond (c : cond) | LSim (c : cond) | LSimOff (o : simoff) | LCmd (k : cmd).
Definition input := list line.
Definition output := list diag.
Definition run (i : input) : output :=
  map (fun l => match l with LCond c => analyze_condition c | LSim c => analyze_simulate c | LSimOff o => analyze_simoff o
                           | LCmd k => analyze_command k end) i.
Definition diag_eqb (a b : diag) : bool :=
  match a, b with
  | DNone, DNone | DConditionMissing, DConditionMissing | DAssignmentMissing, DAssignmentMissing | DMissingTag, DMissingTag
  | DSuggestTag, DSuggestTag | DUndefinedTag, DUndefinedTag | DMissingOperator, DMissingOperator | DMissingValue, DMissingValue
  | DUnexpectedUnit, DUnexpectedUnit | DMissingUnit, DMissingUnit | DInvalidUnit, DInvalidUnit
  | DIncompatibleUnits, DIncompatibleUnits | DSuggestCommand, DSuggestCommand | DUndefinedCommand, DUndefinedCommand
  | DCommandNoArguments, DCommandNoArguments | DCommandArgsInvalid, DCommandArgsInvalid | DCrash, DCrash | DMisplaced, DMisplaced => true
  | _, _ => false
  end.
Definition out_eqb : output -> output -> bool := list_eqb diag_eqb.

(* the property on the observed diagnostics: no crash; an undefined name is reported as undefined on its line; an
   incomplete condition / assignment is reported as an error *)
Definition undefined_name (l : line) : bool :=
  match l with
  | LCond c | LSim c => c_present c && negb (c_tag_blank c) && negb (l_defined (c_lookup c))
  | LSimOff o => negb (o_blank o) && negb (l_defined (o_lookup o))
  | LCmd k => negb (l_defined (k_lookup k))
  end.
Definition incomplete (l : line) : bool :=
  match l with
  | LCond c | LSim c => negb (c_present c) || c_tag_blank c || (l_defined (c_lookup c) && (negb (c_op_ok c) || c_value_empty c))
  | LSimOff o => o_blank o
  | LCmd _ => false
  end.
Definition is_undefined_diag (d : diag) : bool :=
  match d with DSuggestTag | DUndefinedTag | DSuggestCommand | DUndefinedCommand => true | _ => false end.
Definition line_ok (l : line) (d : diag) : bool :=
  negb (diag_eqb d DCrash) && negb (diag_eqb d DMisplaced)
  && (negb (undefined_name l) || is_undefined_diag d)
  && (negb (incomplete l) || negb (diag_eqb d DNone)).
Definition holds_b (i : input) (o : output) : bool := forallb (fun ld => line_ok (fst ld) (snd ld)) (combine i o) && Nat.eqb (length i) (length o).
