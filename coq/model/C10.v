(* C10: Stop and Restart leave no command running and start cleanly.
   Monitor on run boundaries, UOD init/finalize calls, the engine's command instances and the run id after every
   operation (model/EngRun.v). The run-log clause needs the tracking records and is not modelled here. *)
From Coq Require Import ZArith List Bool Arith.
From OP Require Import lib.Obs model.Eng model.EngRun.
Import ListNotations.
Open Scope Z_scope.

Definition input := EngRun.input.
Definition output := EngRun.output.
Definition run := EngRun.run.
Definition out_eqb := EngRun.out_eqb.

Record st10 := {
  live10 : list (nat * nat);      (* UOD instances initialised and not finalized *)
  runs : nat;                     (* runs started so far *)
  inrun : bool }.
Definition st10_0 : st10 := {| live10 := []; runs := 0; inrun := false |}.

Definition ev10 (s : st10) (x : ev) : option st10 :=
  match x with
  | EUInit n id => Some {| live10 := (n, id) :: live10 s; runs := runs s; inrun := inrun s |}
  | EUFinal n id =>
      Some {| live10 := filter (fun k => negb (Nat.eqb (fst k) n && Nat.eqb (snd k) id)) (live10 s); runs := runs s; inrun := inrun s |}
  | EStarted _ => Some {| live10 := live10 s; runs := S (runs s); inrun := true |}
  | EStoppedRun =>
      if negb (inrun s) then Some s          (* Stop accepted in the Paused-after-failed-Stop state: no run to end *)
      else match live10 s with
           | [] => Some {| live10 := []; runs := runs s; inrun := false |}
           | _ => None                                                    (* a command outlives the run *)
           end
  | _ => Some s
  end.
Fixpoint mon10 (s : st10) (evs : list ev) : option st10 :=
  match evs with
  | [] => Some s
  | x :: r => match ev10 s x with Some s' => mon10 s' r | None => None end
  end.

(* after every operation: a run id exactly while a run is active; an operation in which a run started shows an id never
   shown before (ids are numbered by first appearance), otherwise the id is unchanged; outside a run the engine holds no
   command instance *)
Definition is_started (x : ev) : bool := match x with EStarted _ => true | _ => false end.
Fixpoint walk (s : st10) (shown : option nat) (seen : nat) (vs : output) : bool :=
  match vs with
  | [] => true
  | v :: vs' =>
      match mon10 s (v_events v) with
      | Some s' =>
          if inrun s' then
            if existsb is_started (v_events v)
            then option_eqb Nat.eqb (v_run v) (Some seen) && walk s' (Some seen) (S seen) vs'
            else option_eqb Nat.eqb (v_run v) shown && walk s' shown seen vs'
          else option_eqb Nat.eqb (v_run v) None && (match v_uods v with [] => true | _ => false end) && walk s' None seen vs'
      | None => false
      end
  end.

Definition holds_b (i : input) (o : output) : bool := walk st10_0 None 0 o.

(* run ids handed out in order: the model's run ids are 0, 1, 2, ... *)
Fixpoint ids10 (n : nat) (evs : list ev) : option nat :=
  match evs with
  | [] => Some n
  | EStarted k :: r => if Nat.eqb k n then ids10 (S n) r else None
  | _ :: r => ids10 n r
  end.
