(* Correspondence interface of the engine-core model (shared by C06 - C11, C13). *)
From Coq Require Import ZArith List Bool Arith.
From OP Require Import lib.Obs model.Eng.
Import ListNotations.
Open Scope Z_scope.

Record cfg := { c_safe : list (option Z); c_overlaps : list (list nat); c_outs0 : list Z }.
Definition input := (cfg * list op)%type.

(* what is observed on the real engine after every operation *)
Record view := {
  v_flags : list bool;                      (* started, paused, holding, stopping, method error, error state, accepted *)
  v_sys : sysst; v_run : option nat;
  v_prev : option (list (nat * Z));
  v_outs : list Z; v_hw : list (option Z);
  v_clocks : list Z;                        (* Process Time, Run Time, Block Time, Scope Time *)
  v_reg : list iname; v_uods : list (nat * nat);      (* running internal commands; UOD instances (name, id) *)
  v_exe : list nat; v_que : list nat;       (* request ids in the executing list and in the queue *)
  v_events : list ev }.                     (* UOD init/exec/finalize and hardware writes caused by this operation *)
Definition output := list view.

Definition view_of (e : E) (accepted : bool) (ntrace : nat) : view :=
  {| v_flags := [started e; paused e; holding e; stopping e; m_err e; last_err e; accepted];
     v_sys := sys e; v_run := run_id e; v_prev := prev e; v_outs := outs e; v_hw := hw e;
     v_clocks := [ptime e; rtime e; btime e; stime e];
     v_reg := map i_name (reg e); v_uods := map (fun c => (c_name c, c_id c)) (uods e);
     v_exe := map r_id (exe e); v_que := map r_id (que e);
     v_events := skipn ntrace (trace e) |}.

Fixpoint run_ops (c : cfg) (e : E) (os : list op) : output :=
  match os with
  | [] => []
  | o :: os' =>
      let '(e', acc) := step (c_safe c) (c_overlaps c) e o in
      view_of e' acc (length (trace e)) :: run_ops c e' os'
  end.

Definition start_state (c : cfg) : E := boot (c_safe c) (init (length (c_outs0 c)) (c_outs0 c)).
(* run ids are fresh uuids in the implementation: they are compared by order of first appearance in the views *)
Fixpoint index_of (x : nat) (l : list nat) (k : nat) : option nat :=
  match l with [] => None | y :: l' => if Nat.eqb x y then Some k else index_of x l' (S k) end.
Definition with_run (v : view) (r : option nat) : view :=
  {| v_flags := v_flags v; v_sys := v_sys v; v_run := r; v_prev := v_prev v; v_outs := v_outs v; v_hw := v_hw v;
     v_clocks := v_clocks v; v_reg := v_reg v; v_uods := v_uods v; v_exe := v_exe v; v_que := v_que v; v_events := v_events v |}.
Fixpoint canon_runs (seen : list nat) (vs : output) : output :=
  match vs with
  | [] => []
  | v :: vs' =>
      match v_run v with
      | None => v :: canon_runs seen vs'
      | Some r => match index_of r seen 0 with
                  | Some k => with_run v (Some k) :: canon_runs seen vs'
                  | None => with_run v (Some (length seen)) :: canon_runs (seen ++ [r]) vs'
                  end
      end
  end.
Definition run (i : input) : output := canon_runs [] (run_ops (fst i) (start_state (fst i)) (snd i)).

Definition oz_eqb := option_eqb Z.eqb.
Definition nz_eqb (a b : nat * Z) := Nat.eqb (fst a) (fst b) && (snd a =? snd b).
Definition ev_eqb (a b : ev) : bool :=
  match a, b with
  | EUInit n i, EUInit n' i' => Nat.eqb n n' && Nat.eqb i i'
  | EUExec n i k, EUExec n' i' k' => Nat.eqb n n' && Nat.eqb i i' && (k =? k')
  | EUFinal n i, EUFinal n' i' => Nat.eqb n n' && Nat.eqb i i'
  | EHwWrite v, EHwWrite v' => list_eqb Z.eqb v v'
  | EStarted r, EStarted r' => true          (* run ids are compared in v_run, canonically *)
  | EPause a c, EPause a' c' => Bool.eqb a a' && list_eqb nz_eqb c c'
  | EUnpause r, EUnpause r' => option_eqb (list_eqb nz_eqb) r r'
  | EStoppedRun, EStoppedRun => true
  | EOut u i v, EOut u' i' v' => Bool.eqb u u' && Nat.eqb i i' && (v =? v')
  | EError, EError => true
  | ECrash, ECrash => true
  | EClock s d b a, EClock s' d' b' a' => sys_eqb s s' && (d =? d') && list_eqb Z.eqb b b' && list_eqb Z.eqb a a'
  | _, _ => false
  end.
Definition view_eqb (a b : view) : bool :=
  list_eqb Bool.eqb (v_flags a) (v_flags b) && sys_eqb (v_sys a) (v_sys b)
  && option_eqb Nat.eqb (v_run a) (v_run b)
  && option_eqb (list_eqb nz_eqb) (v_prev a) (v_prev b)
  && list_eqb Z.eqb (v_outs a) (v_outs b) && list_eqb oz_eqb (v_hw a) (v_hw b)
  && list_eqb Z.eqb (v_clocks a) (v_clocks b)
  && list_eqb iname_eqb (v_reg a) (v_reg b)
  && list_eqb (pair_eqb Nat.eqb Nat.eqb) (v_uods a) (v_uods b)
  && list_eqb Nat.eqb (v_exe a) (v_exe b) && list_eqb Nat.eqb (v_que a) (v_que b)
  && list_eqb ev_eqb (v_events a) (v_events b).
Definition out_eqb : output -> output -> bool := list_eqb view_eqb.
