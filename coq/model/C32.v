(* Model of role based access control in the aggregator's routers:
     auth.has_access, the two guard functions (process_unit.get_registered_engine_data_or_fail,
     recent_runs.get_recent_run_or_fail), a guarded handler, a filtered listing.
   Which route does what comes from gen/Routes.v.  Executable definitions only. *)
From Coq Require Import List Bool Arith String.
From OP Require Import lib.Obs gen.Routes.
Import ListNotations.
Local Open Scope list_scope.

Definition role := nat.
Definition mem (x : role) (l : list role) : bool := existsb (Nat.eqb x) l.
(* required_roles = set(obj.required_roles); len(required_roles) == 0 or len(required_roles & user_roles) > 0 *)
Definition has_access (required user : list role) : bool :=
  match required with [] => true | _ => existsb (fun r => mem r user) required end.

Inductive resp := R404 | R403 | RPass.      (* RPass: the handler body runs (reads the data / sends the command) *)

(* obj = None: no such unit / run; Some required: it exists with these required roles *)
Definition guard (obj : option (list role)) (user : list role) : resp :=
  match obj with
  | None => R404
  | Some required => if has_access required user then RPass else R403
  end.

Definition handle (k : guard_kind) (obj : option (list role)) (user : list role) : resp :=
  match k with
  | Guarded => guard obj user
  | Unguarded => match obj with None => R404 | Some _ => RPass end
  | NoObject | ListingFiltered | ListingUnfiltered => RPass
  end.

(* a listing over all units / runs: which of them are shown *)
Definition listing (k : guard_kind) (objs : list (list role)) (user : list role) : list bool :=
  match k with
  | ListingFiltered => map (fun required => has_access required user) objs
  | _ => map (fun _ => true) objs
  end.

Definition kind_of (i : nat) : guard_kind :=
  match nth_error routes i with Some (_, _, _, _, _, k) => k | None => NoObject end.

(* ---------- correspondence interface ---------- *)
Inductive query :=
| QRoute (route : nat) (obj : option (list role)) (user : list role)
| QList (route : nat) (objs : list (list role)) (user : list role).
Inductive answer := AResp (r : resp) (reached_engine : bool) | AList (shown : list bool).
Definition input := query.
Definition output := answer.

Definition is_post (i : nat) : bool :=
  match nth_error routes i with Some (_, v, _, _, _, _) => String.eqb v "POST" | None => false end.

Definition run (q : input) : output :=
  match q with
  | QRoute i obj user =>
      let r := handle (kind_of i) obj user in
      AResp r (match r with RPass => is_post i | _ => false end)
  | QList i objs user => AList (listing (kind_of i) objs user)
  end.

Definition resp_eqb (a b : resp) : bool :=
  match a, b with R404, R404 | R403, R403 | RPass, RPass => true | _, _ => false end.
Definition out_eqb (a b : output) : bool :=
  match a, b with
  | AResp r1 e1, AResp r2 e2 => resp_eqb r1 r2 && (e1 || negb e2)   (* only a request that passed may reach an engine *)
  | AList l1, AList l2 => list_eqb Bool.eqb l1 l2
  | _, _ => false
  end.

(* the property on an observation: a user lacking every required role is refused and nothing reaches the
   engine, listings omit the object; an object that requires no role is open *)
Definition lacks_all (required user : list role) : bool :=
  match required with [] => false | _ => negb (existsb (fun r => mem r user) required) end.

Definition holds_b (q : input) (o : output) : bool :=
  match q, o with
  | QRoute i (Some required) user, AResp r eng =>
      (* a handler that touches neither the aggregator nor the database (gen/Routes.v: NoObject) reads no data *)
      if match kind_of i with NoObject => true | _ => false end then negb eng
      else if lacks_all required user then negb (resp_eqb r RPass) && negb eng
      else match required with [] => resp_eqb r RPass | _ => true end
  | QRoute i None user, AResp r eng => negb eng
  | QList i objs user, AList shown =>
      Nat.eqb (List.length shown) (List.length objs) &&
      forallb (fun p => if lacks_all (fst p) user then negb (snd p)
                        else match fst p with [] => snd p | _ => true end) (combine objs shown)
  | _, _ => false
  end.
