(* C24 interface: the Recovery model plus the C24 monitor. *)
From Coq Require Import ZArith List Bool Arith.
From OP Require Import lib.Obs gen.RecoveryConst.
From OP Require Export model.Recovery.
Import ListNotations.
Open Scope Z_scope.

Definition input := Recovery.input.
Definition output := Recovery.output.
Definition run : input -> output := Recovery.run.
Definition out_eqb : output -> output -> bool := Recovery.out_eqb.

(* Monitor on an implementation trace, from observable data only: replay the operations keeping
   the ghost `commanded` (last value handed to a write that did not raise); every value the
   hardware accepted must be the commanded value of its register at that moment
   ("a buffered value is never written after a newer value"). The hardware log of the whole run is
   cut per operation by counting: we check the weaker, order-free consequence that is decidable
   from the final log -- the LAST value the hardware accepted for a register that is not pending
   at the end equals the last commanded value, unless every later write attempt raised. *)
Fixpoint ghost_commanded (ops : list op) (obs : list (result * rstate * bool)) (c : amap) : amap :=
  match ops, obs with
  | o :: ops', (r, _, _) :: obs' =>
      let c' := match o, r with
                | Write v x _ _, RDone => aset c x v
                | WriteBatch ps _ _, RDone => set_all c ps
                | _, _ => c end in
      ghost_commanded ops' obs' c'
  | _, _ => c
  end.

Fixpoint last_written (log : list (reg * Z)) (r : reg) (acc : option Z) : option Z :=
  match log with
  | [] => acc
  | (x, v) :: log' => last_written log' r (if Nat.eqb x r then Some v else acc)
  end.

Definition holds_b (i : input) (o : output) : bool :=
  let '(obs, log, pend) := o in
  let c := ghost_commanded (snd i) obs [] in
  forallb (fun e =>
    let r := fst e in
    match aget pend r with
    | Some pv => Z.eqb pv (snd e)                       (* still buffered: must be the newest value *)
    | None =>
        match last_written log r None with
        | Some w => Z.eqb w (snd e)                     (* on the hardware: must be the newest value *)
        | None => true                                  (* never reached the hardware (all attempts failed in Reconnect..Error) *)
        end
    end) c.
