(* Model of FromFrontend active-user tracking (openpectus/aggregator/aggregator.py:
   user_subscribed_pubsub, on_ws_disconnect, register_active_user, unregister_active_user). *)
From Coq Require Import ZArith List Bool Arith.
From OP Require Import lib.Obs.
Import ListNotations.

Definition conn := nat. Definition user := nat. Definition unit_id := nat.

Record st := { switches : list (conn * user);        (* dead_man_switch_user_ids *)
               active : list (list user) }.           (* per existing unit: active_users keys *)

Inductive op :=
| Sub (c : conn) (u : user)
| Reg (e : unit_id) (u : user)
| Unreg (e : unit_id) (u : user)
| Disc (c : conn).

Definition has_user (u : user) (l : list user) := existsb (Nat.eqb u) l.
Definition remove_user (u : user) (l : list user) := filter (fun x => negb (Nat.eqb x u)) l.
Definition set_switch (c : conn) (u : user) (sw : list (conn * user)) :=
  (c, u) :: filter (fun e => negb (Nat.eqb (fst e) c)) sw.
Fixpoint get_switch (c : conn) (sw : list (conn * user)) : option user :=
  match sw with [] => None | e :: sw' => if Nat.eqb (fst e) c then Some (snd e) else get_switch c sw' end.
Definition live (u : user) (sw : list (conn * user)) : bool := existsb (fun e => Nat.eqb (snd e) u) sw.

Fixpoint upd {A} (n : nat) (f : A -> A) (l : list A) : list A :=
  match l, n with
  | [], _ => []
  | x :: l', O => f x :: l'
  | x :: l', S n' => x :: upd n' f l'
  end.

(* result flag: the boolean the request returns (true for Sub/Disc) *)
Definition step (s : st) (o : op) : st * bool :=
  match o with
  | Sub c u => ({| switches := set_switch c u (switches s); active := active s |}, true)
  | Reg e u =>
      if Nat.ltb e (length (active s))
      then ({| switches := switches s;
               active := upd e (fun l => if has_user u l then l else l ++ [u]) (active s) |}, true)
      else (s, false)
  | Unreg e u =>
      if Nat.ltb e (length (active s))
      then if has_user u (nth e (active s) [])
           then ({| switches := switches s; active := upd e (remove_user u) (active s) |}, true)
           else (s, false)
      else (s, false)
  | Disc c =>
      match get_switch c (switches s) with
      | None => (s, true)
      | Some u =>
          let sw := filter (fun e => negb (Nat.eqb (fst e) c)) (switches s) in
          if live u sw then ({| switches := sw; active := active s |}, true)
          else ({| switches := sw; active := map (remove_user u) (active s) |}, true)
      end
  end.

Definition init (nunits : nat) : st := {| switches := []; active := repeat [] nunits |}.

Fixpoint run_ops (s : st) (os : list op) : list (bool * list (list user)) :=
  match os with
  | [] => []
  | o :: os' => let '(s', r) := step s o in (r, active s') :: run_ops s' os'
  end.
Definition final (s : st) (os : list op) : st := fold_left (fun s o => fst (step s o)) os s.

(* ---------- correspondence interface ---------- *)
Definition input := (nat * list op)%type.
Definition output := list (bool * list (list user)).     (* per op: result, active users per unit *)
Definition run (i : input) : output := run_ops (init (fst i)) (snd i).

Definition users_eqb := list_eqb Nat.eqb.
Definition out_eqb : output -> output -> bool :=
  list_eqb (pair_eqb Bool.eqb (list_eqb users_eqb)).

(* ---------- monitor: the two clauses of the property, against ghost state built from the
   operations alone (which connections are open for whom; who asked to be registered where) ---- *)
Definition ghost_live (u : user) (g : list (conn * user)) := existsb (fun e => Nat.eqb (snd e) u) g.

Fixpoint monitor (g : list (conn * user)) (os : list op) (o : output) : bool :=
  match os, o with
  | op1 :: os', (_, act) :: o' =>
      let g' := match op1 with
                | Sub c u => (c, u) :: filter (fun e => negb (Nat.eqb (fst e) c)) g
                | Disc c => filter (fun e => negb (Nat.eqb (fst e) c)) g
                | _ => g end in
      (* listed => live connection *)
      forallb (forallb (fun u => ghost_live u g')) act
      && monitor g' os' o'
  | [], [] => true
  | _, _ => false
  end.

(* valid histories (the frontend's protocol): a user registers only while holding a live
   connection; a connection carries the dead man switch of one user *)
Fixpoint valid (g : list (conn * user)) (os : list op) : bool :=
  match os with
  | [] => true
  | Sub c u :: os' =>
      match get_switch c g with Some u' => Nat.eqb u u' | None => true end
      && valid (set_switch c u g) os'
  | Reg e u :: os' => ghost_live u g && valid g os'
  | Unreg _ _ :: os' => valid g os'
  | Disc c :: os' => valid (filter (fun e => negb (Nat.eqb (fst e) c)) g) os'
  end.

Definition holds_b (i : input) (o : output) : bool :=
  if valid [] (snd i) then monitor [] (snd i) o else true.
