(* Model of FromFrontend.save_method (openpectus/aggregator/aggregator.py) with the per-engine
   lock: concurrent saves for one engine as a transition system whose steps are the code's atomic
   sections (between two suspending awaits). The schedule is the operation list. *)
From Coq Require Import ZArith List Bool Arith.
From OP Require Import lib.Obs.
Import ListNotations.
Open Scope Z_scope.

Definition task := nat.
Inductive status := Waiting | Sent | Accepted (v : Z) | Rejected | Failed.

Record st := {
  version : Z;                        (* engine_data.method.version *)
  holder : option (task * Z);         (* task inside the critical section, with its base version *)
  queue : list (task * Z);            (* FIFO waiters of the asyncio.Lock *)
  stat : list (task * status);        (* newest first *)
  rpc_log : list (task * Z);          (* MethodMsg sent to the engine: task, new version; oldest first *)
  accepted : list (task * Z)          (* GHOST: accepted saves with their base version; oldest first *)
}.

Definition set_stat (s : st) (i : task) (x : status) : list (task * status) := (i, x) :: stat s.
Fixpoint get_stat (l : list (task * status)) (i : task) : option status :=
  match l with [] => None | e :: l' => if Nat.eqb (fst e) i then Some (snd e) else get_stat l' i end.

(* a task that has just acquired the lock runs up to its rpc await (or raises) *)
Definition enter (s : st) (i : task) (base : Z) : st :=
  if version s =? base then
    {| version := version s; holder := Some (i, base); queue := queue s; stat := set_stat s i Sent;
       rpc_log := rpc_log s ++ [(i, base + 1)]; accepted := accepted s |}
  else
    {| version := version s; holder := None; queue := queue s; stat := set_stat s i Rejected;
       rpc_log := rpc_log s; accepted := accepted s |}.

(* lock release: waiters are woken in FIFO order; one that is rejected releases at once *)
Fixpoint grant (s : st) (q : list (task * Z)) : st :=
  match q with
  | [] => {| version := version s; holder := None; queue := []; stat := stat s;
             rpc_log := rpc_log s; accepted := accepted s |}
  | (i, base) :: q' =>
      let s1 := {| version := version s; holder := None; queue := q'; stat := stat s;
                   rpc_log := rpc_log s; accepted := accepted s |} in
      let s2 := enter s1 i base in
      match holder s2 with
      | Some _ => s2
      | None => grant s2 q'
      end
  end.

Inductive op :=
| Start (i : task) (base : Z)          (* a save request based on version `base` arrives *)
| Reply (i : task) (ok : bool).        (* the engine answers task i's MethodMsg *)

Definition step (s : st) (o : op) : st :=
  match o with
  | Start i base =>
      match holder s with
      | None => enter s i base
      | Some _ => {| version := version s; holder := holder s; queue := queue s ++ [(i, base)];
                     stat := set_stat s i Waiting; rpc_log := rpc_log s; accepted := accepted s |}
      end
  | Reply i ok =>
      match holder s with
      | Some (j, base) =>
          if Nat.eqb i j then
            let s1 :=
              if ok then {| version := base + 1; holder := None; queue := queue s;
                            stat := set_stat s i (Accepted (base + 1)); rpc_log := rpc_log s;
                            accepted := accepted s ++ [(i, base)] |}
              else {| version := version s; holder := None; queue := queue s; stat := set_stat s i Failed;
                      rpc_log := rpc_log s; accepted := accepted s |} in
            grant s1 (queue s1)
          else s
      | None => s
      end
  end.

Definition init (v : Z) : st :=
  {| version := v; holder := None; queue := []; stat := []; rpc_log := []; accepted := [] |}.
Definition final (s : st) (os : list op) : st := fold_left step os s.

(* ---------- correspondence interface ---------- *)
Definition input := (Z * nat * list op)%type.          (* initial version, number of tasks, schedule *)
Definition obs1 := (Z * list Z * list (task * Z))%type. (* version, status code per task, rpc log *)
Definition output := list obs1.

Definition code (x : option status) : Z :=
  match x with
  | None => 0 | Some Waiting => 1 | Some Sent => 2 | Some Rejected => 3 | Some Failed => 4
  | Some (Accepted v) => 10 + v
  end.
Definition view (n : nat) (s : st) : obs1 :=
  (version s, map (fun i => code (get_stat (stat s) i)) (seq 0 n), rpc_log s).
Fixpoint run_ops (n : nat) (s : st) (os : list op) : output :=
  match os with [] => [] | o :: os' => let s' := step s o in view n s' :: run_ops n s' os' end.
Definition run (i : input) : output := let '(v, n, os) := i in run_ops n (init v) os.

Definition obs1_eqb (a b : obs1) : bool :=
  let '(v1, c1, l1) := a in let '(v2, c2, l2) := b in
  (v1 =? v2) && list_eqb Z.eqb c1 c2 && list_eqb (pair_eqb Nat.eqb Z.eqb) l1 l2.
Definition out_eqb : output -> output -> bool := list_eqb obs1_eqb.

(* ---------- monitor on the implementation's trace ---------- *)
(* base version of each task, from the schedule *)
Fixpoint base_of (os : list op) (i : task) : option Z :=
  match os with
  | [] => None
  | Start j b :: os' => if Nat.eqb i j then Some b else base_of os' i
  | _ :: os' => base_of os' i
  end.
(* (1) every accepted task reports version base+1; (2) accepted bases are pairwise distinct;
   (3) the version moves only by +1 and exactly when one more task is accepted, and at that moment
   the accepted task's base is the version before. *)
Definition accepted_of (os : list op) (n : nat) (codes : list Z) : list (task * Z) :=
  flat_map (fun i => match base_of os i with
                     | Some b => if 10 <=? nth i codes 0 then [(i, b)] else []
                     | None => [] end) (seq 0 n).
Fixpoint nodup_z (l : list Z) : bool :=
  match l with [] => true | x :: l' => negb (existsb (Z.eqb x) l') && nodup_z l' end.

Fixpoint mon (os_all : list op) (n : nat) (prev : obs1) (o : output) : bool :=
  match o with
  | [] => true
  | cur :: o' =>
      let '(pv, pc, _) := prev in let '(cv, cc, _) := cur in
      let acc_prev := accepted_of os_all n pc in
      let acc_cur := accepted_of os_all n cc in
      let newly := filter (fun x => negb (existsb (fun y => Nat.eqb (fst x) (fst y)) acc_prev)) acc_cur in
      forallb (fun x => (nth (fst x) cc 0 =? 10 + (snd x + 1))) acc_cur
      && nodup_z (map snd acc_cur)
      && (match newly with
          | [] => cv =? pv
          | [x] => (snd x =? pv) && (cv =? pv + 1)
          | _ => false end)
      && mon os_all n cur o'
  end.

Definition holds_b (i : input) (o : output) : bool :=
  let '(v, n, os) := i in mon os n (v, map (fun _ => 0) (seq 0 n), []) o.
