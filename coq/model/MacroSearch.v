(* Macro recursion search (C41, recursion clause; used by the interpreter model): the search that decides whether calling a macro would make it call itself.
   Model of MacroNode.macro_calling_macro (openpectus/lang/model/ast.py) over the macro table: for every macro name the
   names its body calls, in source order, nested blocks / watches / alarms included, nested macro definitions excluded. *)
From Coq Require Import ZArith List Bool Arith.
From OP Require Import lib.Obs.
Import ListNotations.

Definition tbl := list (nat * list nat).
Fixpoint lookup (t : tbl) (n : nat) : option (list nat) :=
  match t with [] => None | (k, b) :: t' => if Nat.eqb k n then Some b else lookup t' n end.
Definition memn (x : nat) (l : list nat) : bool := existsb (Nat.eqb x) l.

(* search fuel t target visited body = Some (path, visited'): the chain of names called, ending with target, or [] ;
   None: out of fuel (never happens with fuel > number of macros) *)
Fixpoint search (fuel : nat) (t : tbl) (target : nat) (vis : list nat) (body : list nat) {struct fuel}
  : option (list nat * list nat) :=
  match fuel with
  | O => None
  | S f =>
      (fix go (vis : list nat) (body : list nat) {struct body} : option (list nat * list nat) :=
         match body with
         | [] => Some ([], vis)
         | c :: rest =>
             if Nat.eqb c target then Some ([c], vis)
             else match lookup t c with
                  | Some b =>
                      if memn c vis then go vis rest
                      else match search f t target (c :: vis) b with
                           | None => None
                           | Some ([], vis1) => go vis1 rest
                           | Some (p, vis1) => Some (c :: p, vis1)
                           end
                  | None => go vis rest
                  end
         end) vis body
  end.

(* the call of macro m is refused iff the search from its body finds m (the interpreter and the analyzer both test
   `cascade and name in cascade`; a non-empty result always ends with the name) *)
Definition refused (t : tbl) (m : nat) : bool :=
  match lookup t m with
  | Some b => match search (S (length t)) t m [] b with Some ([], _) => false | _ => true end
  | None => false
  end.

(* ---------- what running the calls does ---------- *)
(* executing a call of macro m fails when m is undefined, when the recursion check refuses it, or when one of the calls
   its body executes fails (bodies without conditions: every call in the body is executed, in order) *)
Fixpoint call_fails (depth : nat) (t : tbl) (m : nat) : bool :=
  match lookup t m with
  | None => true
  | Some b =>
      refused t m
      || match depth with
         | O => false
         | S d => existsb (call_fails d t) b
         end
  end.

