(* C20: a method the analyzer accepts does not fail on names, arguments or units.
   One line of interest per case: the analyzer's decision (model/C19.v, here with the definitions the ENGINE publishes) and
   what happens when the line is run on that engine. *)
From Coq Require Import List Bool Arith.
From OP Require Import lib.Obs model.C19.
Import ListNotations.

Definition analyze (l : line) : diag :=
  match l with LCond c => analyze_condition c | LSim c => analyze_simulate c | LSimOff o => analyze_simoff o
             | LCmd k => analyze_command k end.
Definition accepted (d : diag) : bool := diag_eqb d DNone.

(* what the engine needs of a line at run time, in the facts the analyzer tests: the name resolves, the command accepts the
   argument, the condition is complete and its unit fits the tag's *)
Definition runtime_needs (l : line) : bool :=
  match l with
  | LCmd k => l_defined (k_lookup k) && negb (k_noargs_with_arg k) && k_args_valid k
  | LSimOff o => negb (o_blank o) && l_defined (o_lookup o)
  | LCond c | LSim c =>
      c_present c && negb (c_tag_blank c) && l_defined (c_lookup c) && c_op_ok c && negb (c_value_empty c)
      && (if c_tag_unit c then c_cond_unit c && negb (c_unit_error c) && c_comparable c else negb (c_cond_unit c))
  end.

Definition input := line.
Definition output := (diag * bool)%type.                (* the analyzer's diagnostic for the line; the run failed *)
(* the model's side: the diagnostic, and whether the facts predict a run-time failure on names / arguments / units *)
Definition run (l : input) : output := (analyze l, negb (runtime_needs l)).
(* the prediction is compared only where the property speaks: for accepted lines *)
Definition out_eqb (m o : output) : bool :=
  diag_eqb (fst m) (fst o) && (negb (accepted (fst m)) || Bool.eqb (snd m) (snd o)).
(* the property on the observation: accepted => the run did not fail *)
Definition holds_b (l : input) (o : output) : bool := negb (accepted (fst o)) || negb (snd o).
