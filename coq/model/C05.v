(* C05: blocks nest and end correctly; the Block tag names the active block. Monitor on the node states the real
   interpreter shows after every tick (model/InterpRun.v). *)
From Coq Require Import ZArith List Bool Arith.
From OP Require Import lib.Obs model.Interp model.InterpRun.
Import ListNotations.

Definition input := InterpRun.input.
Definition output := InterpRun.output.
Definition run := InterpRun.run.
Definition out_eqb := InterpRun.out_eqb.

Section Mon.
  Variable p : program.
  Definition vst (v : view) (n : nat) : ns := nth n (v_nodes v) ns0.
  Definition blocks : list nat := filter (is_block p) (seq 0 (length p)).
  Definition locked (v : view) : list nat := filter (fun b => lock_acquired (vst v b)) blocks.
  Definition active (v : view) : list nat := filter (fun b => negb (block_ended (vst v b))) (locked v).
  Definition is_anc (a b : nat) : bool := memn a (ancestors p b).

  (* the locked blocks form one nested chain *)
  Definition chain_ok (v : view) : bool :=
    forallb (fun a => forallb (fun b => Nat.eqb a b || is_anc a b || is_anc b a) (locked v)) (locked v).
  (* the Block tag names the innermost active block, nothing when none is active *)
  Definition tag_ok (v : view) : bool :=
    option_eqb Nat.eqb (v_block v) (match rev (active v) with b :: _ => Some b | [] => None end).
  (* an ended block has no pending Watch / Alarm: no interrupt of the map lies inside an ended block *)
  Definition no_pending_in_ended (v : view) : bool :=
    forallb (fun i => negb (existsb (fun a => is_block p a && block_ended (vst v a)) (ancestors p i))) (v_ints v).
  (* an instruction after a block (a later sibling) has started only if the block has ended *)
  Definition after_block_ok (v : view) : bool :=
    forallb (fun b =>
               match n_parent (nd p b) with
               | Some q =>
                   let sibs := n_children (nd p q) in
                   let later := (fix drop (l : list nat) := match l with [] => [] | x :: l' => if Nat.eqb x b then l' else drop l' end) sibs in
                   forallb (fun s => negb (started (vst v s)) || block_ended (vst v b) || completed (vst v b) || negb (started (vst v b))) later
               | None => true
               end) blocks.
  Definition view_ok (v : view) : bool := chain_ok v && tag_ok v && no_pending_in_ended v && after_block_ok v.
  (* hypothesis of the pending-interrupt theorem, evaluated on every method: parent pointers and child lists describe the
     same tree (a node lies among the descendants of each of its block ancestors) *)
  Definition tree_ok_b : bool :=
    forallb (fun i => forallb (fun b => negb (is_block p b) || memn i (descendants p b)) (ancestors p i)) (seq 0 (length p)).
End Mon.

Definition holds_b (i : input) (o : output) : bool := tree_ok_b (fst i) && wf_b (fst i) && forallb (view_ok (fst i)) o.
