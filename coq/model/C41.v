(* C41 (recursion clause): the search that decides whether calling a macro would make it call itself.
   Model of MacroNode.macro_calling_macro (openpectus/lang/model/ast.py) over the macro table: for every macro name the
   names its body calls, in source order, nested blocks / watches / alarms included, nested macro definitions excluded. *)
From Coq Require Import ZArith List Bool Arith.
From OP Require Import lib.Obs.
Import ListNotations.

Definition tbl := list (nat * list nat).
Fixpoint lookup (t : tbl) (n : nat) : option (list nat) :=
  match t with [] => None | (k, b) :: t' => if Nat.eqb k n then Some b else lookup t' n end.
Definition memn (x : nat) (l : list nat) : bool := existsb (Nat.eqb x) l.

(* search fuel t target visited body = Some (path, visited'): the chain of names called, ending with target, or [] ;
   None: out of fuel (never happens with fuel > number of macros) *)
Fixpoint search (fuel : nat) (t : tbl) (target : nat) (vis : list nat) (body : list nat) {struct fuel}
  : option (list nat * list nat) :=
  match fuel with
  | O => None
  | S f =>
      (fix go (vis : list nat) (body : list nat) {struct body} : option (list nat * list nat) :=
         match body with
         | [] => Some ([], vis)
         | c :: rest =>
             if Nat.eqb c target then Some ([c], vis)
             else match lookup t c with
                  | Some b =>
                      if memn c vis then go vis rest
                      else match search f t target (c :: vis) b with
                           | None => None
                           | Some ([], vis1) => go vis1 rest
                           | Some (p, vis1) => Some (c :: p, vis1)
                           end
                  | None => go vis rest
                  end
         end) vis body
  end.

(* the call of macro m is refused iff the search from its body finds m (the interpreter and the analyzer both test
   `cascade and name in cascade`; a non-empty result always ends with the name) *)
Definition refused (t : tbl) (m : nat) : bool :=
  match lookup t m with
  | Some b => match search (S (length t)) t m [] b with Some ([], _) => false | _ => true end
  | None => false
  end.

(* ---------- what running the calls does ---------- *)
(* executing a call of macro m fails when m is undefined, when the recursion check refuses it, or when one of the calls
   its body executes fails (bodies without conditions: every call in the body is executed, in order) *)
Fixpoint call_fails (depth : nat) (t : tbl) (m : nat) : bool :=
  match lookup t m with
  | None => true
  | Some b =>
      refused t m
      || match depth with
         | O => false
         | S d => existsb (call_fails d t) b
         end
  end.

(* ---------- correspondence interface ---------- *)
Inductive input :=
| IFun (t : tbl) (queries : list nat)          (* macro_calling_macro(macros) for each queried macro *)
| IRun (t : tbl) (calls : list nat).            (* a method: the definitions, then these top-level calls, then a final Mark *)
Inductive output :=
| OFun (paths : list (list nat))
| ORun (error : bool) (ended : bool).           (* Method Status Error seen; the final Mark was reached *)

Definition run (i : input) : output :=
  match i with
  | IFun t qs =>
      OFun (map (fun m => match lookup t m with
                          | Some b => match search (S (length t)) t m [] b with Some (p, _) => p | None => [] end
                          | None => []
                          end) qs)
  | IRun t calls => let e := existsb (call_fails (length t) t) calls in ORun e (negb e)
  end.
Definition out_eqb (a b : output) : bool :=
  match a, b with
  | OFun x, OFun y => list_eqb (list_eqb Nat.eqb) x y
  | ORun e1 d1, ORun e2 d2 => Bool.eqb e1 e2 && Bool.eqb d1 d2
  | _, _ => false
  end.

(* the property on the observations: the result names the macro iff some chain of calls leads back to it (decided here
   by an independent, naive bounded search: no visited set, depth <= number of macros); a run either fails or reaches
   its end -- it never stalls -- and it fails exactly when an executed call is undefined or would recurse *)
Fixpoint reach_b (depth : nat) (t : tbl) (target : nat) (body : list nat) : bool :=
  match depth with
  | O => memn target body
  | S d => memn target body
           || existsb (fun c => match lookup t c with Some b => reach_b d t target b | None => false end) body
  end.
Fixpoint fails_b (depth : nat) (t : tbl) (m : nat) : bool :=
  match lookup t m with
  | None => true
  | Some b => reach_b (length t) t m b || match depth with O => false | S d => existsb (fails_b d t) b end
  end.
Definition holds_b (i : input) (o : output) : bool :=
  match i, o with
  | IFun t qs, OFun ps =>
      list_eqb Bool.eqb
        (map (fun p => match p with [] => false | _ => true end) ps)
        (map (fun m => match lookup t m with Some b => reach_b (length t) t m b | None => false end) qs)
      && forallb (fun mp => match snd mp with [] => true | p => Nat.eqb (last p 0%nat) (fst mp) end) (combine qs ps)
  | IRun t calls, ORun e d =>
      Bool.eqb e (existsb (fails_b (length t) t) calls) && Bool.eqb d (negb e)
  | _, _ => false
  end.
