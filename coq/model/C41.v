(* C41: macros run the most recently defined body and never recurse.
   Correspondence interface and monitors. The recursion search itself is model/MacroSearch.v (the interpreter model
   model/Interp.v calls it); the third stream runs methods with macro definitions, redefinitions between calls and calls
   on the interpreter model and on the real PInterpreter (model/InterpRun.v). *)
From Coq Require Import ZArith List Bool Arith.
From OP Require Import lib.Obs.
From OP Require Export model.MacroSearch.
From OP Require Import model.Interp model.InterpRun.
Import ListNotations.

(* ---------- correspondence interface ---------- *)
Inductive input :=
| IFun (t : tbl) (queries : list nat)          (* macro_calling_macro(macros) for each queried macro *)
| IRun (t : tbl) (calls : list nat)             (* a method: the definitions, then these top-level calls, then a final Mark *)
| IInterp (i : InterpRun.input).                (* a method with macros, tick by tick on the interpreter model *)
Inductive output :=
| OFun (paths : list (list nat))
| ORun (error : bool) (ended : bool)            (* Method Status Error seen; the final Mark was reached *)
| OInterp (vs : InterpRun.output).

Definition run (i : input) : output :=
  match i with
  | IFun t qs =>
      OFun (map (fun m => match lookup t m with
                          | Some b => match search (Datatypes.S (length t)) t m [] b with Some (p, _) => p | None => [] end
                          | None => []
                          end) qs)
  | IRun t calls => let e := existsb (call_fails (length t) t) calls in ORun e (negb e)
  | IInterp i => OInterp (InterpRun.run i)
  end.
Definition out_eqb (a b : output) : bool :=
  match a, b with
  | OFun x, OFun y => list_eqb (list_eqb Nat.eqb) x y
  | ORun e1 d1, ORun e2 d2 => Bool.eqb e1 e2 && Bool.eqb d1 d2
  | OInterp x, OInterp y => InterpRun.out_eqb x y
  | _, _ => false
  end.

(* the property on the observations: the result names the macro iff some chain of calls leads back to it (decided here
   by an independent, naive bounded search: no visited set, depth <= number of macros); a run either fails or reaches
   its end -- it never stalls -- and it fails exactly when an executed call is undefined or would recurse *)
Fixpoint reach_b (depth : nat) (t : tbl) (target : nat) (body : list nat) : bool :=
  match depth with
  | O => memn target body
  | Datatypes.S d => memn target body
           || existsb (fun c => match lookup t c with Some b => reach_b d t target b | None => false end) body
  end.
Fixpoint fails_b (depth : nat) (t : tbl) (m : nat) : bool :=
  match lookup t m with
  | None => true
  | Some b => reach_b (length t) t m b || match depth with O => false | Datatypes.S d => existsb (fails_b d t) b end
  end.

(* ---- the interpreter stream: the body a call runs is the most recently defined one; a call of a name nothing has
   defined fails. Read off the real node states after every tick:
     defined v m    : the definition line m has been visited (is_registered, or started / completed as a line)
     the registry   : rebuilt here from the order in which definitions become defined (later replaces earlier)
     a call started : the macro node's run_started_count went up in this tick *)
Section Mon.
  Variable p : program.
  Definition vst (v : view) (n : nat) : ns := nth n (v_nodes v) ns0.
  Definition macro_nodes : list (nat * nat) :=                    (* (node, name) *)
    flat_map (fun n => match n_kind (nd p n) with KMacro nm => [(n, nm)] | _ => [] end) (seq 0 (length p)).
  Definition call_nodes : list (nat * nat) :=
    flat_map (fun n => match n_kind (nd p n) with KCallMacro nm => [(n, nm)] | _ => [] end) (seq 0 (length p)).
  Definition defined (v : view) (m : nat) : bool :=
    interrupt_registered (vst v m) || started (vst v m) || completed (vst v m).
  Definition newly_defined (u : option view) (v : view) : list (nat * nat) :=
    filter (fun mn => defined v (fst mn) && negb (match u with Some u' => defined u' (fst mn) | None => false end)) macro_nodes.
  Definition reg_put (reg : list (nat * nat)) (mn : nat * nat) : list (nat * nat) :=      (* (name, node) *)
    (snd mn, fst mn) :: filter (fun e => negb (Nat.eqb (fst e) (snd mn))) reg.
  Definition reg_get (reg : list (nat * nat)) (nm : nat) : option nat :=
    match find (fun e => Nat.eqb (fst e) nm) reg with Some e => Some (snd e) | None => None end.
  Definition latest_ok (u : option view) (v : view) (reg : list (nat * nat)) : bool :=
    let fresh := newly_defined u v in
    forallb (fun mn => let '(m, nm) := mn in
                       let before := match u with Some u' => run_count (vst u' m) | None => 0%nat end in
                       negb (Nat.ltb before (run_count (vst v m)))
                       || option_eqb Nat.eqb (reg_get reg nm) (Some m)
                       || existsb (fun f => Nat.eqb (fst f) m) fresh) macro_nodes.
  (* a call of a name no visited definition carries never completes; its concrete visit begins one tick after the line
     is marked started and fails there (unless that tick raised before reaching it) *)
  Definition undefined_ok (u : option view) (v : view) : bool :=
    forallb (fun cn => let '(c, nm) := cn in
                       existsb (fun mn => Nat.eqb (snd mn) nm && defined v (fst mn)) macro_nodes
                       || failed (vst v c)
                       || (negb (completed (vst v c))
                           && (v_raised v || negb (started (vst v c))
                               || negb (match u with Some u' => started (vst u' c) | None => false end)))) call_nodes.
  (* once per call: a Call macro line outside Alarm and Macro bodies (it runs at most once) that has completed without
     failing has had the body run for it -- the completed calls of a name never outnumber the runs started of the
     definitions of that name *)
  Definition under_repeat (n : nat) : bool :=
    existsb (fun a => match n_kind (nd p a) with KAlarm | KMacro _ => true | _ => false end) (ancestors p n).
  Definition once_per_call_ok (v : view) : bool :=
    forallb (fun nm =>
               Nat.leb (length (filter (fun cn => Nat.eqb (snd cn) nm && negb (under_repeat (fst cn))
                                                  && completed (vst v (fst cn)) && negb (failed (vst v (fst cn)))) call_nodes))
                       (list_sum (map (fun mn => if Nat.eqb (snd mn) nm then run_count (vst v (fst mn)) else 0%nat) macro_nodes)))
            (map snd call_nodes).
  Fixpoint interp_walk (u : option view) (reg : list (nat * nat)) (vs : list view) : bool :=
    match vs with
    | [] => true
    | v :: vs' => latest_ok u v reg && undefined_ok u v && once_per_call_ok v && interp_walk (Some v) (fold_left reg_put (newly_defined u v) reg) vs'
    end.
End Mon.
Definition holds_b (i : input) (o : output) : bool :=
  match i, o with
  | IFun t qs, OFun ps =>
      list_eqb Bool.eqb
        (map (fun p => match p with [] => false | _ => true end) ps)
        (map (fun m => match lookup t m with Some b => reach_b (length t) t m b | None => false end) qs)
      && forallb (fun mp => match snd mp with [] => true | p => Nat.eqb (last p 0%nat) (fst mp) end) (combine qs ps)
  | IRun t calls, ORun e d =>
      Bool.eqb e (existsb (fails_b (length t) t) calls) && Bool.eqb d (negb e)
  | IInterp i, OInterp vs => interp_walk (fst i) None [] vs
  | _, _ => false
  end.
