(* Model of the aggregator's run bookkeeping: FromEngine.register_engine_data /
   _try_restore_reconnected_engine_data / engine_disconnected / run_started / run_stopped /
   tag_values_changed (aggregator.py), Aggregator.shutdown, and the repositories
   (data/repository.py: store_recent_engine, store_recent_run, create_plot_log, store_tag_values)
   with the database tables as row lists. Tag persistence reuses model/C29.v. *)
From Coq Require Import ZArith List Bool Arith.
From OP Require Import lib.Obs model.C29.
Import ListNotations.
Open Scope Z_scope.

Definition eid := nat.
Definition rid := Z.

Record rundata := { rd_id : rid; rd_started : Z; rd_lp : option Z }.
Record edata := { e_id : eid; e_run : option rundata; e_tags : list report }.

Record db := {
  recent_engines : list (eid * option (rid * Z));     (* one row per engine: run_id, run_started *)
  recent_runs : list (eid * rid);                      (* insertion order *)
  plot_logs : list (eid * rid);
  plot_rows : list (eid * rid * (tname * Z * Z))       (* values: plot log (engine, run), tag, value, time *)
}.

Record st := { engines : list edata; data : db }.

Definition find_engine (s : st) (e : eid) : option edata :=
  find (fun d => Nat.eqb (e_id d) e) (engines s).
Fixpoint set_engine (l : list edata) (d : edata) : list edata :=
  match l with
  | [] => [d]
  | x :: l' => if Nat.eqb (e_id x) (e_id d) then d :: l' else x :: set_engine l' d
  end.
Definition del_engine (l : list edata) (e : eid) : list edata :=
  filter (fun d => negb (Nat.eqb (e_id d) e)) l.

Fixpoint get_recent (l : list (eid * option (rid * Z))) (e : eid) : option (option (rid * Z)) :=
  match l with [] => None | x :: l' => if Nat.eqb (fst x) e then Some (snd x) else get_recent l' e end.
Fixpoint set_recent (l : list (eid * option (rid * Z))) (e : eid) (v : option (rid * Z)) :=
  match l with
  | [] => [(e, v)]
  | x :: l' => if Nat.eqb (fst x) e then (e, v) :: l' else x :: set_recent l' e v
  end.

Definition er_eqb (a b : eid * rid) : bool := Nat.eqb (fst a) (fst b) && (snd a =? snd b).
Definition has_plot_log (d : db) (e : eid) (r : rid) : bool := existsb (er_eqb (e, r)) (plot_logs d).

(* store_recent_engine *)
Definition store_recent_engine (d : db) (x : edata) : db :=
  {| recent_engines := set_recent (recent_engines d) (e_id x)
                         (match e_run x with Some r => Some (rd_id r, rd_started r) | None => None end);
     recent_runs := recent_runs d; plot_logs := plot_logs d; plot_rows := plot_rows d |}.
Definition store_recent_run (d : db) (e : eid) (r : rid) : db :=
  {| recent_engines := recent_engines d; recent_runs := recent_runs d ++ [(e, r)];
     plot_logs := plot_logs d; plot_rows := plot_rows d |}.
(* create_plot_log: idempotent per (engine, run) -- the repair recorded for C30 *)
Definition create_plot_log (d : db) (e : eid) (r : rid) : db :=
  if has_plot_log d e r then d else
  {| recent_engines := recent_engines d; recent_runs := recent_runs d;
     plot_logs := plot_logs d ++ [(e, r)]; plot_rows := plot_rows d |}.
Definition add_rows (d : db) (e : eid) (r : rid) (rows : list (tname * Z * Z)) : db :=
  {| recent_engines := recent_engines d; recent_runs := recent_runs d; plot_logs := plot_logs d;
     plot_rows := plot_rows d ++ (if has_plot_log d e r then map (fun w => (e, r, w)) rows else []) |}.

Inductive op :=
| Register (e : eid)
| Disconnect (e : eid)
| RunStarted (e : eid) (r : rid) (t : Z)
| RunStopped (e : eid) (r : rid)
| Tags (e : eid) (mr : option rid) (msg : list (tname * Z * Z))
| Restart           (* shutdown(), then a new process over the same database *)
| Crash.            (* a new process over the same database, no shutdown *)

Section Params.
  Variable interval : option Z.
  Variable entries : list tname.

  Definition new_run (r : rid) (t : Z) : rundata := {| rd_id := r; rd_started := t; rd_lp := None |}.

  Definition step (s : st) (o : op) : st :=
    match o with
    | Register e =>
        match find_engine s e with
        | Some _ => s
        | None =>
            let run := match get_recent (recent_engines (data s)) e with
                       | Some (Some (r, t)) => Some (new_run r t)
                       | _ => None end in
            {| engines := engines s ++ [{| e_id := e; e_run := run; e_tags := [] |}]; data := data s |}
        end
    | Disconnect e =>
        match find_engine s e with
        | Some x => {| engines := del_engine (engines s) e; data := store_recent_engine (data s) x |}
        | None => s
        end
    | RunStarted e r t =>
        match find_engine s e with
        | None => s
        | Some x =>
            match e_run x with
            | None =>
                {| engines := set_engine (engines s) {| e_id := e; e_run := Some (new_run r t); e_tags := e_tags x |};
                   data := create_plot_log (data s) e r |}
            | Some cur =>
                if rd_id cur =? r then {| engines := engines s; data := create_plot_log (data s) e r |}
                else
                  {| engines := set_engine (engines s) {| e_id := e; e_run := Some (new_run r t); e_tags := e_tags x |};
                     data := create_plot_log (store_recent_run (data s) e (rd_id cur)) e r |}
            end
        end
    | RunStopped e r =>
        match find_engine s e with
        | None => s
        | Some x =>
            match e_run x with
            | None => s
            | Some cur =>
                {| engines := set_engine (engines s) {| e_id := e; e_run := None; e_tags := e_tags x |};
                   data := store_recent_run (data s) e (rd_id cur) |}
            end
        end
    | Tags e mr msg =>
        match find_engine s e with
        | None => s
        | Some x =>
            let cur := match e_run x with Some c => Some (rd_id c) | None => None end in
            (* skipped unless the message belongs to the current run (both none, or equal ids) *)
            if negb (option_eqb Z.eqb cur mr) then s else
            let tags' := fold_left upsert (map mk_report msg) (e_tags x) in
            match e_run x with
            | None => {| engines := set_engine (engines s) {| e_id := e; e_run := None; e_tags := tags' |};
                         data := data s |}
            | Some c =>
                let p := persist interval entries
                           {| tags := tags'; lp := rd_lp c; rows := []; raised := false |} in
                {| engines := set_engine (engines s)
                     {| e_id := e;
                        e_run := Some {| rd_id := rd_id c; rd_started := rd_started c; rd_lp := lp p |};
                        e_tags := tags' |};
                   data := add_rows (data s) e (rd_id c)
                             (map (fun w => (w_name w, w_val w, w_time w)) (rows p)) |}
            end
        end
    | Restart => {| engines := []; data := fold_left store_recent_engine (engines s) (data s) |}
    | Crash => {| engines := []; data := data s |}
    end.
End Params.

Definition init : st :=
  {| engines := []; data := {| recent_engines := []; recent_runs := []; plot_logs := []; plot_rows := [] |} |}.

Definition view (s : st) : list (eid * option (rid * Z)) * list (eid * rid) * list (eid * rid)
                           * list (eid * rid * (tname * Z * Z)) :=
  (map (fun x => (e_id x, match e_run x with Some r => Some (rd_id r, rd_started r) | None => None end)) (engines s),
   recent_runs (data s), plot_logs (data s), plot_rows (data s)).

Fixpoint run_ops (interval : option Z) (entries : list tname) (s : st) (os : list op) :=
  match os with
  | [] => []
  | o :: os' => let s' := step interval entries s o in view s' :: run_ops interval entries s' os'
  end.
Definition final (interval : option Z) (entries : list tname) (s : st) (os : list op) : st :=
  fold_left (step interval entries) os s.

(* ---------- correspondence interface (shared by C28 and C30) ---------- *)
Definition input := (option Z * list tname * list op)%type.
Definition obs1 := (list (eid * option (rid * Z)) * list (eid * rid) * list (eid * rid)
                    * list (eid * rid * (tname * Z * Z)))%type.
Definition output := list obs1.
Definition run (i : input) : output := let '(iv, en, os) := i in run_ops iv en init os.

Definition rt_eqb (a b : rid * Z) : bool := (fst a =? fst b) && (snd a =? snd b).
Definition eng_eqb (a b : eid * option (rid * Z)) : bool :=
  Nat.eqb (fst a) (fst b) && option_eqb rt_eqb (snd a) (snd b).
Definition prow_eqb (a b : eid * rid * (tname * Z * Z)) : bool :=
  er_eqb (fst a) (fst b) && t3_eqb (snd a) (snd b).
Definition obs1_eqb (a b : obs1) : bool :=
  let '(e1, r1, p1, w1) := a in let '(e2, r2, p2, w2) := b in
  list_eqb eng_eqb e1 e2 && list_eqb er_eqb r1 r2 && list_eqb er_eqb p1 p2 && list_eqb prow_eqb w1 w2.
Definition out_eqb : output -> output -> bool := list_eqb obs1_eqb.

Fixpoint nodup_b {A} (eqb : A -> A -> bool) (l : list A) : bool :=
  match l with [] => true | x :: l' => negb (existsb (eqb x) l') && nodup_b eqb l' end.
