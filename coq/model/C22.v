(* Model of the command-argument patterns (openpectus/lang/exec/regex.py RegexNumber,
   RegexCategorical) and of the introspection helpers of RegexNamedArgumentParser (uod.py):
   - the pattern STRINGS are built by the same concatenations (incl. re.escape);
   - matching is modelled per pattern shape by hand-written recognisers that decide the same
     language as Python's backtracking `re.search` for these shapes (validated by correspondence). *)
From Coq Require Import ZArith List Bool.
From OP Require Import lib.Obs.
Import ListNotations.
Open Scope Z_scope.

(* literal pieces of the pattern strings *)
Definition SPECIALS : list Z := [9; 10; 11; 12; 13; 32; 35; 36; 38; 40; 41; 42; 43; 45; 46; 63; 91; 92; 93; 94; 123; 124; 125; 126]%Z.
Definition SIGN : list Z := [45; 63]%Z.
Definition UNIT_OPEN : list Z := [32; 63; 40; 63; 80; 60; 110; 117; 109; 98; 101; 114; 95; 117; 110; 105; 116; 62]%Z.
Definition NUM_OPEN : list Z := [94; 92; 115; 42; 40; 63; 80; 60; 110; 117; 109; 98; 101; 114; 62]%Z.
Definition INT1 : list Z := [91; 48; 45; 57; 93; 43; 63; 124]%Z.
Definition INT2 : list Z := [91; 48; 45; 57; 93; 43; 41; 92; 115; 42]%Z.
Definition FLT1 : list Z := [91; 48; 45; 57; 93; 43; 91; 46; 93; 91; 48; 45; 57; 93; 42; 63; 124]%Z.
Definition FLT2 : list Z := [91; 46; 93; 91; 48; 45; 57; 93; 43; 124]%Z.
Definition FLT3 : list Z := [91; 48; 45; 57; 93; 43; 41; 92; 115; 42]%Z.
Definition NUM_CLOSE : list Z := [92; 115; 42; 36]%Z.
Definition CAT_OPEN : list Z := [94; 40; 63; 80; 60; 111; 112; 116; 105; 111; 110; 62; 40]%Z.
Definition CAT_MID : list Z := [124; 40]%Z.
Definition CAT_CLOSE : list Z := [124; 92; 43; 41; 43; 41; 40; 63; 60; 33; 92; 43; 41; 41; 92; 115; 42; 36]%Z.
Definition NUMBER_UNIT : list Z := [60; 110; 117; 109; 98; 101; 114; 95; 117; 110; 105; 116; 62]%Z.
Definition OPTION_TAG : list Z := [60; 111; 112; 116; 105; 111; 110; 62]%Z.
Definition PIPE_PAREN : list Z := [124; 40]%Z.
Definition CAT_TAIL : list Z := [124; 92; 43; 41; 43; 41; 40; 63; 60; 33; 92; 43; 41; 41; 92; 115; 42]%Z.

(* ---------- characters ---------- *)
Definition is_space (c : Z) : bool :=          (* Python str \s *)
  ((9 <=? c) && (c <=? 13)) || ((28 <=? c) && (c <=? 32)) || (c =? 133) || (c =? 160) || (c =? 5760)
  || ((8192 <=? c) && (c <=? 8202)) || (c =? 8232) || (c =? 8233) || (c =? 8239) || (c =? 8287) || (c =? 12288).
Definition is_digit (c : Z) : bool := (48 <=? c) && (c <=? 57).      (* [0-9] *)
Definition plus : Z := 43. Definition minus : Z := 45. Definition dot : Z := 46.
Definition pipe : Z := 124. Definition bslash : Z := 92.

Fixpoint prefix (p s : str) : option str :=          (* rest of s after p *)
  match p, s with
  | [], _ => Some s
  | a :: p', b :: s' => if a =? b then prefix p' s' else None
  | _ :: _, [] => None
  end.
Definition all_space (s : str) : bool := forallb is_space s.
Fixpoint drop_spaces (s : str) : str :=
  match s with c :: s' => if is_space c then drop_spaces s' else s | [] => [] end.
Fixpoint take_digits (s : str) : str * str :=
  match s with
  | c :: s' => if is_digit c then let '(d, r) := take_digits s' in (c :: d, r) else ([], s)
  | [] => ([], [])
  end.

(* ---------- numbers ---------- *)
(* number token at the start of s: [-]d+[.d*] | [-].d+ ; greedy on digits (what follows must be
   whitespace, a unit or the end, none of which starts with a digit or '.': see hypothesis
   units_ok in the theorems) *)
Definition take_number (nonneg intonly : bool) (s : str) : option (str * str) :=
  let '(sign, s1) := match s with
                     | c :: s' => if (c =? minus) && negb nonneg then ([c], s') else ([], s)
                     | [] => ([], []) end in
  let '(d1, s2) := take_digits s1 in
  if intonly then match d1 with [] => None | _ => Some (sign ++ d1, s2) end
  else
    match s2 with
    | c :: s3 =>
        if c =? dot then
          let '(d2, s4) := take_digits s3 in
          match d1, d2 with
          | [], [] => None
          | _, _ => Some (sign ++ d1 ++ [dot] ++ d2, s4)
          end
        else match d1 with [] => None | _ => Some (sign ++ d1, s2) end
    | [] => match d1 with [] => None | _ => Some (sign ++ d1, s2) end
    end.

(* first unit (in list order) that is followed by whitespace only *)
Fixpoint take_unit (units : list str) (s : str) : option str :=
  match units with
  | [] => None
  | u :: units' =>
      match prefix u s with
      | Some rest => if all_space rest then Some u else take_unit units' s
      | None => take_unit units' s
      end
  end.

(* re.search(RegexNumber(units, non_negative, int_only), s).groupdict() *)
Definition match_number (units : list str) (nonneg intonly : bool) (s : str) : option (str * option str) :=
  match take_number nonneg intonly (drop_spaces s) with
  | None => None
  | Some (num, rest) =>
      let rest' := drop_spaces rest in
      match units with
      | [] => if all_space rest' then Some (num, None) else None
      | _ => match take_unit units rest' with
             | Some u => Some (num, Some u)
             | None => None end
      end
  end.

(* ---------- categorical ---------- *)
(* can s be cut into pieces each of which is a non-empty element of opts or a single '+' ? *)
Fixpoint segs (fuel : nat) (opts : list str) (s : str) : bool :=
  match s with
  | [] => true
  | _ =>
      match fuel with
      | O => false
      | S fuel' =>
          existsb (fun o => match o with
                            | [] => false
                            | _ => match prefix o s with Some rest => segs fuel' opts rest | None => false end
                            end) ([plus] :: opts)
      end
  end.

Definition ends_with_plus (s : str) : bool :=
  match rev s with c :: _ => c =? plus | [] => false end.

(* the group (?P<option>(E|(A|\+)+)(?<!\+)) against a whole body *)
Definition body_impl (excl add : list str) (body : str) : bool :=
  negb (ends_with_plus body) &&
  ( existsb (str_eqb body) excl
    || (match excl with [] => match body with [] => true | _ => false end | _ => false end)
    || (match body with
        | [] => (match add with [] => true | _ => existsb (str_eqb []) add end)
        | _ => segs (length body) add body end) ).

(* all ways to cut a whitespace tail off s: body candidates, longest body first *)
Fixpoint bodies (s : str) : list str :=
  match s with
  | [] => [[]]
  | c :: s' =>
      let bs := map (cons c) (bodies s') in
      if all_space s then bs ++ [[]] else bs
  end.
(* bodies s = every prefix b of s such that the rest of s is whitespace *)

Definition match_categorical (excl add : list str) (s : str) : bool :=
  existsb (body_impl excl add) (bodies s).

(* the DOCUMENTED language: exactly one exclusive option, or a '+'-separated list of additive
   options; never empty; trailing whitespace tolerated like the pattern's \s*$ *)
Fixpoint plus_list (fuel : nat) (add : list str) (s : str) : bool :=
  match fuel with
  | O => false
  | S fuel' =>
      existsb (fun a => match a with
                        | [] => false
                        | _ => match prefix a s with
                               | Some [] => true
                               | Some (c :: rest) => (c =? plus) && plus_list fuel' add rest
                               | None => false end
                        end) add
  end.
Definition body_doc (excl add : list str) (body : str) : bool :=
  match body with
  | [] => false
  | _ => existsb (str_eqb body) excl || plus_list (length body) add body
  end.
Definition doc_categorical (excl add : list str) (s : str) : bool :=
  existsb (body_doc excl add) (bodies s).

(* ---------- pattern strings ---------- *)
Definition re_special (c : Z) : bool :=       (* re.escape: _special_chars_map *)
  existsb (Z.eqb c) SPECIALS.
Fixpoint re_escape (s : str) : str :=
  match s with [] => [] | c :: s' => if re_special c then bslash :: c :: re_escape s' else c :: re_escape s' end.
Fixpoint replace_slash (s : str) : str :=     (* .replace("/", "\/") *)
  match s with [] => [] | c :: s' => if c =? 47 then bslash :: 47 :: replace_slash s' else c :: replace_slash s' end.
Fixpoint join_pipe (l : list str) : str :=
  match l with [] => [] | [x] => x | x :: l' => x ++ pipe :: join_pipe l' end.

Definition regex_number_str (units : list str) (nonneg intonly : bool) : str :=
  let sign := if nonneg then [] else SIGN in
  let unit_part := match units with
                   | [] => []
                   | _ => UNIT_OPEN ++ join_pipe (map (fun u => replace_slash (re_escape u)) units) ++ [41]
                   end in
  if intonly then
    NUM_OPEN ++ sign ++ INT1 ++ sign ++ INT2 ++ unit_part ++ NUM_CLOSE
  else
    NUM_OPEN ++ sign ++ FLT1 ++ sign ++ FLT2 ++ sign ++ FLT3 ++ unit_part ++ NUM_CLOSE.

Definition regex_categorical_str (excl add : list str) : str :=
  CAT_OPEN ++ join_pipe (map re_escape excl) ++ CAT_MID ++ join_pipe (map re_escape add) ++ CAT_CLOSE.

(* ---------- introspection (RegexNamedArgumentParser.get_units / get_*_options) ---------- *)
Fixpoint find_sub (fuel : nat) (needle s : str) : option nat :=      (* str.index *)
  match prefix needle s with
  | Some _ => Some O
  | None => match s, fuel with
            | _ :: s', S f => match find_sub f needle s' with Some n => Some (S n) | None => None end
            | _, _ => None end
  end.
Fixpoint unescape (s : str) : str :=          (* re.sub(r'\\(.)', r'\1', s); '.' does not match newline *)
  match s with
  | [] => []
  | c :: s' => if c =? bslash
               then match s' with
                    | d :: s'' => if d =? 10 then c :: unescape s' else d :: unescape s''
                    | [] => [c] end
               else c :: unescape s'
  end.
Fixpoint split_pipe (s : str) (cur : str) : list str :=   (* str.split("|"), cur reversed *)
  match s with
  | [] => [rev cur]
  | c :: s' => if c =? pipe then rev cur :: split_pipe s' [] else split_pipe s' (c :: cur)
  end.
Fixpoint remove_first_empty (l : list str) : list str :=   (* if "" in result: result.remove("") *)
  match l with [] => [] | x :: l' => match x with [] => l' | _ => x :: remove_first_empty l' end end.
Definition rindex_paren (s : str) (start : nat) : option nat :=   (* s.rindex(")", start) *)
  let idxs := filter (fun i => (nth i s 0 =? 41) && Nat.leb start i) (seq 0 (length s)) in
  match rev idxs with i :: _ => Some i | [] => None end.
Definition slice (s : str) (a b : nat) : str := firstn (b - a) (skipn a s).

Definition get_units (re : str) : option (list str) :=
  match find_sub (length re) NUMBER_UNIT re with
  | None => Some []
  | Some i =>
      let start := (i + length NUMBER_UNIT)%nat in
      match rindex_paren re start with
      | None => None
      | Some e => Some (split_pipe (unescape (slice re start e)) [])
      end
  end.
Definition get_options (re : str) : option (list str * list str) :=
  match find_sub (length re) OPTION_TAG re with
  | None => Some ([], [])
  | Some i =>
      let start := (i + length OPTION_TAG + 1)%nat in
      match find_sub (length re) PIPE_PAREN re, find_sub (length re) CAT_TAIL re with
      | Some e, Some e2 =>
          Some (remove_first_empty (split_pipe (unescape (slice re start e)) []),
                remove_first_empty (split_pipe (unescape (slice re (e + 2) e2)) []))
      | _, _ => None
      end
  end.

(* ---------- correspondence interface ---------- *)
Inductive query :=
| QNum (units : list str) (nonneg intonly : bool) (s : str)
| QCat (excl add : list str) (s : str)
| QBuildNum (units : list str) (nonneg intonly : bool)
| QBuildCat (excl add : list str)
| QUnits (units : list str)
| QOpts (excl add : list str).
Inductive answer :=
| ANum (r : option (str * option str))
| ABool (b : bool)
| AStr (s : str)
| AList (l : option (list str))
| ALists (l : option (list str * list str)).

Definition input := query.
Definition output := answer.
Definition run (q : input) : output :=
  match q with
  | QNum u n i s => ANum (match_number u n i s)
  | QCat e a s => ABool (match_categorical e a s)
  | QBuildNum u n i => AStr (regex_number_str u n i)
  | QBuildCat e a => AStr (regex_categorical_str e a)
  | QUnits u => AList (get_units (regex_number_str u false false))
  | QOpts e a => ALists (get_options (regex_categorical_str e a))
  end.

Definition strs_eqb := list_eqb str_eqb.
Definition out_eqb (a b : output) : bool :=
  match a, b with
  | ANum x, ANum y => option_eqb (pair_eqb str_eqb (option_eqb str_eqb)) x y
  | ABool x, ABool y => Bool.eqb x y
  | AStr x, AStr y => str_eqb x y
  | AList x, AList y => option_eqb strs_eqb x y
  | ALists x, ALists y => option_eqb (pair_eqb strs_eqb strs_eqb) x y
  | _, _ => false
  end.

(* is_number: the documented numeric syntax, on a whole token *)
Definition is_number_tok (nonneg intonly : bool) (t : str) : bool :=
  match take_number nonneg intonly t with Some (n, []) => str_eqb n t | _ => false end.

(* monitor on an implementation answer *)
Definition holds_b (q : input) (o : output) : bool :=
  match q, o with
  | QCat e a s, ABool r => Bool.eqb r (doc_categorical e a s)
  | QNum u n i s, ANum (Some (num, unit)) =>
      is_number_tok n i num
      && match u, unit with
         | [], None => true
         | _ :: _, Some x => existsb (str_eqb x) u
         | _, _ => false end
  | QNum _ _ _ _, ANum None => true       (* rejection is compared with the model by the correspondence *)
  | QUnits u, AList r => option_eqb strs_eqb r (Some u)
  | QOpts e a, ALists r => option_eqb (pair_eqb strs_eqb strs_eqb) r (Some (e, a))
  | QBuildNum _ _ _, AStr _ | QBuildCat _ _, AStr _ => true
  | _, _ => false
  end.
