(* C03: two streams.
   IRun: the interpreter run monitors defined in model/C02.v (shared interpreter monitors).
   IClock: the decision of PInterpreter._is_awaiting_threshold -- which clock a threshold is measured on and when it
   counts as reached -- as a function of the facts it reads. *)
From Coq Require Import ZArith List Bool Arith.
From OP Require Import lib.Obs model.Interp model.InterpRun model.C02.
Open Scope Z_scope.

Inductive base_unit := Us | Umin | Uh.
Definition factor (u : base_unit) : Z := match u with Us => 1 | Umin => 60 | Uh => 3600 end.
Inductive block_tag_value := TNone | TEmpty | TName.          (* the Block tag: None, "" or a block's name *)
Record clock := {
  k_completed : bool; k_has_thr : bool; k_forced : bool;
  k_in_interrupt : bool;            (* the line is run by a Watch / Alarm handler: makes no difference *)
  k_block : block_tag_value;
  k_base : base_unit;               (* the Base tag *)
  k_thr : Z;                        (* the threshold, in tenths of the base unit *)
  k_scope_time : Z;                 (* Scope Time, in hundredths of a second *)
  k_block_time : Z }.               (* Block Time, in hundredths of a second *)
(* the clock of the line's scope: block time inside a block, scope time otherwise *)
Definition scope_clock (k : clock) : Z := match k_block k with TName => k_block_time k | _ => k_scope_time k end.
Definition awaiting_threshold (k : clock) : bool :=
  negb (k_completed k) && k_has_thr k && negb (k_forced k) && (scope_clock k <? 10 * k_thr k * factor (k_base k)).

Inductive input := IRun (i : InterpRun.input) | IClock (k : clock).
Inductive output := ORun (o : InterpRun.output) | OClock (awaiting : bool) | OClockRaised.
Definition run (i : input) : output :=
  match i with IRun x => ORun (InterpRun.run x) | IClock k => OClock (awaiting_threshold k) end.
Definition out_eqb (a b : output) : bool :=
  match a, b with
  | ORun x, ORun y => InterpRun.out_eqb x y
  | OClock x, OClock y => Bool.eqb x y
  | OClockRaised, OClockRaised => true
  | _, _ => false
  end.
(* the property on the observation: the run monitors; for a clock case: the line is held back exactly while the clock of
   its scope is below the threshold (and it is a thresholded, uncompleted, unforced line) *)
Definition holds_b (i : input) (o : output) : bool :=
  match i, o with
  | IRun x, ORun y => C02.holds_c03 x y
  | IClock k, OClock a =>
      Bool.eqb a (negb (k_completed k) && k_has_thr k && negb (k_forced k)
                  && (match k_block k with TName => k_block_time k | _ => k_scope_time k end <? 10 * k_thr k * factor (k_base k)))
  | _, _ => false
  end.
