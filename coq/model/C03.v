(* C03: monitor defined in model/C02.v (shared interpreter monitors). *)
From Coq Require Import ZArith List Bool Arith.
From OP Require Import lib.Obs model.Interp model.InterpRun model.C02.
Definition input := InterpRun.input.
Definition output := InterpRun.output.
Definition run := InterpRun.run.
Definition out_eqb := InterpRun.out_eqb.
Definition holds_b := C02.holds_c03.
