(* Model of WebPushPublisher._get_subscriptions_for_topic + the publish loop
   (openpectus/aggregator/webpush_publisher.py), has_access (routers/auth.py) and the repository
   queries (topics.contains(topic) modelled as list membership, user_id IN (...)). *)
From Coq Require Import List Bool Arith.
From OP Require Import lib.Obs.
Import ListNotations.

Definition user := nat. Definition role := nat. Definition topic := nat. Definition unit_id := nat.
Inductive scope := Contributed | Access | Specific.

Record pref := { p_user : user; p_roles : list role; p_scope : scope; p_topics : list topic;
                 p_units : list unit_id }.
Record unit_t := { u_id : unit_id; u_required : list role; u_contributors : list (option user) }.

Definition mem (x : nat) (l : list nat) : bool := existsb (Nat.eqb x) l.

(* routers/auth.py has_access *)
Definition has_access (required user_roles : list role) : bool :=
  match required with
  | [] => true
  | _ => existsb (fun r => mem r user_roles) required
  end.

Definition new_contributor_topic : topic := 6.     (* index of NEW_CONTRIBUTOR in NotificationTopic *)

Definition contributed_to (u : unit_t) (x : user) : bool :=
  existsb (fun c => match c with Some y => Nat.eqb y x | None => false end) (u_contributors u).

Definition selected_users (prefs : list pref) (t : topic) (u : unit_t) : list user :=
  let nps := filter (fun p => mem t (p_topics p)) prefs in
  let access := map p_user (filter (fun p => match p_scope p with Access => true | _ => false end
                                             && has_access (u_required u) (p_roles p)) nps) in
  let contributed := map p_user (filter (fun p => match p_scope p with Contributed => true | _ => false end
                                             && has_access (u_required u) (p_roles p)
                                             && contributed_to u (p_user p)) nps) in
  let specific := map p_user (filter (fun p => match p_scope p with Specific => true | _ => false end
                                             && has_access (u_required u) (p_roles p)
                                             && mem (u_id u) (p_units p)) nps) in
  access ++ contributed ++ specific.

(* subscriptions: (subscription id, user); SELECT ... WHERE user_id IN (...) returns each row once *)
Definition publish (prefs : list pref) (subs : list (nat * user)) (t : topic) (u : unit_t)
  (contributor : option user) : list nat :=
  let users := selected_users prefs t u in
  let rows := filter (fun s => mem (snd s) users) subs in
  map fst (filter (fun s => negb (Nat.eqb t new_contributor_topic
                                  && match contributor with Some c => Nat.eqb c (snd s) | None => false end))
                  rows).

(* ---------- specification ---------- *)
Definition scope_matches (p : pref) (u : unit_t) : bool :=
  match p_scope p with
  | Access => true
  | Contributed => contributed_to u (p_user p)
  | Specific => mem (u_id u) (p_units p)
  end.
Definition entitled (prefs : list pref) (t : topic) (u : unit_t) (contributor : option user) (x : user) : bool :=
  existsb (fun p => Nat.eqb (p_user p) x && mem t (p_topics p) && has_access (u_required u) (p_roles p)
                    && scope_matches p u) prefs
  && negb (Nat.eqb t new_contributor_topic
           && match contributor with Some c => Nat.eqb c x | None => false end).

(* ---------- correspondence interface ---------- *)
Definition input := (list pref * list (nat * user) * topic * unit_t * option user)%type.
Definition output := list nat.          (* subscription ids notified, in id order *)
Definition run (i : input) : output :=
  let '(prefs, subs, t, u, c) := i in publish prefs subs t u c.
Definition out_eqb : output -> output -> bool := list_eqb Nat.eqb.

Fixpoint nodup_nat (l : list nat) : bool :=
  match l with [] => true | x :: l' => negb (mem x l') && nodup_nat l' end.

(* monitor: exactly the subscriptions of entitled users, each at most once *)
Definition holds_b (i : input) (o : output) : bool :=
  let '(prefs, subs, t, u, c) := i in
  nodup_nat o &&
  forallb (fun s => Bool.eqb (mem (fst s) o) (entitled prefs t u c (snd s))) subs &&
  forallb (fun x => mem x (map fst subs)) o.
