(* Model of tag change tracking and reporting:
     Tag.set_value / simulate_value / stop_simulation (openpectus/lang/exec/tags.py),
     direct assignments to a tag's value fields (what tags_impl.py did for Block Time / Scope Time),
     Engine.notify_tag_updates (engine.py), EngineMessageBuilder.collect_tag_updates
     (engine_message_builder.py) and the engine clock.
   Values are integer codes of Python values (0 = None; equal codes <-> Python ==); time stamps are
   integer codes of the floats (order preserving).  Executable definitions only. *)
From Coq Require Import ZArith List Bool Arith.
From OP Require Import lib.Obs.
Import ListNotations.
Open Scope Z_scope.

Record tag := { t_val : Z; t_sim : Z; t_simd : bool; t_stamp : Z }.

Inductive op :=
| OTick (time : Z)                       (* Engine.tick begins: the engine clock *)
| OSet (i : nat) (v : Z) (st : Z)        (* Tag.set_value(v, st) *)
| OSim (i : nat) (v : Z) (st : Z)        (* Tag.simulate_value(v, st) / simulate_value_and_unit *)
| OStopSim (i : nat)                     (* Tag.stop_simulation() *)
| ORawVal (i : nat) (v : Z)              (* self.value = v            outside the notifying methods *)
| ORawSim (i : nat) (v : Z)              (* self.simulated_value = v  outside the notifying methods *)
| ORawFlag (i : nat) (b : bool)          (* self.simulated = b        outside the notifying methods *)
| OStamp (i : nat) (st : Z)              (* tag.tick_time = st  (Engine.tick gives system tags the first tick time) *)
| ONotify                                (* Engine.notify_tag_updates *)
| OCollect (snapshot : bool).            (* EngineMessageBuilder.collect_tag_updates(snapshot) *)

Record report := { r_entries : list (nat * Z * Z);   (* tag, reported value, reported time stamp; by tag id *)
                   r_truth : list Z }.                (* visible value of EVERY tag when the report was taken *)

(* rep is a ghost: the visible value last reported for each tag *)
Record st := { tags : list tag; changes : list nat; queue : list nat; now : Z; out : list report; rep : list Z }.

Definition visible (t : tag) : Z := if t_simd t then t_sim t else t_val t.
Definition dflt : tag := {| t_val := 0; t_sim := 0; t_simd := false; t_stamp := 0 |}.
Definition get (s : st) (i : nat) : tag := nth i (tags s) dflt.

Fixpoint upd {A} (l : list A) (i : nat) (x : A) : list A :=
  match l, i with
  | [], _ => []
  | _ :: l', O => x :: l'
  | y :: l', S i' => y :: upd l' i' x
  end.

Definition mem (i : nat) (l : list nat) : bool := existsb (Nat.eqb i) l.
Definition add (i : nat) (l : list nat) : list nat := if mem i l then l else l ++ [i].   (* a set *)

Definition set_tag (s : st) (i : nat) (t : tag) : st :=
  {| tags := upd (tags s) i t; changes := changes s; queue := queue s; now := now s; out := out s; rep := rep s |}.
Definition notify (s : st) (i : nat) : st :=
  {| tags := tags s; changes := add i (changes s); queue := queue s; now := now s; out := out s; rep := rep s |}.

Fixpoint dedupe (l : list nat) (seen : list nat) : list nat :=
  match l with
  | [] => []
  | i :: l' => if mem i seen then dedupe l' seen else i :: dedupe l' (i :: seen)
  end.

(* insertion sort by tag id: reports are compared as sets *)
Fixpoint insert (i : nat) (l : list nat) : list nat :=
  match l with
  | [] => [i]
  | j :: l' => if Nat.leb i j then i :: l else j :: insert i l'
  end.
Definition sort (l : list nat) : list nat := fold_right insert [] l.

Definition entry (s : st) (i : nat) : nat * Z * Z := (i, visible (get s i), t_stamp (get s i)).

Definition step (s : st) (o : op) : st :=
  match o with
  | OTick t => {| tags := tags s; changes := changes s; queue := queue s; now := t; out := out s; rep := rep s |}
  | OSet i v stamp =>
      let t := get s i in
      if v =? t_val t then s
      else notify (set_tag s i {| t_val := v; t_sim := t_sim t; t_simd := t_simd t; t_stamp := stamp |}) i
  | OSim i v stamp =>
      let t := get s i in
      if v =? t_sim t then set_tag s i {| t_val := t_val t; t_sim := t_sim t; t_simd := true; t_stamp := t_stamp t |}
      else notify (set_tag s i {| t_val := t_val t; t_sim := v; t_simd := true; t_stamp := stamp |}) i
  | OStopSim i =>
      let t := get s i in
      let s' := set_tag s i {| t_val := t_val t; t_sim := 0; t_simd := false; t_stamp := t_stamp t |} in
      if t_simd t then notify s' i else s'
  | ORawVal i v => let t := get s i in set_tag s i {| t_val := v; t_sim := t_sim t; t_simd := t_simd t; t_stamp := t_stamp t |}
  | ORawSim i v => let t := get s i in set_tag s i {| t_val := t_val t; t_sim := v; t_simd := t_simd t; t_stamp := t_stamp t |}
  | ORawFlag i b => let t := get s i in set_tag s i {| t_val := t_val t; t_sim := t_sim t; t_simd := b; t_stamp := t_stamp t |}
  | OStamp i stamp => let t := get s i in set_tag s i {| t_val := t_val t; t_sim := t_sim t; t_simd := t_simd t; t_stamp := stamp |}
  | ONotify => {| tags := tags s; changes := []; queue := queue s ++ changes s; now := now s; out := out s; rep := rep s |}
  | OCollect snap =>
      let q := if snap then queue s ++ seq 0 (length (tags s)) else queue s in
      let r := {| r_entries := map (entry s) (sort (dedupe q [])); r_truth := map visible (tags s) |} in
      {| tags := tags s; changes := changes s; queue := []; now := now s; out := out s ++ [r];
         rep := map (fun p => if mem (fst p) q then visible (get s (fst p)) else snd p)
                    (combine (seq 0 (length (rep s))) (rep s)) |}
  end.

Definition init (ts : list tag) : st :=
  {| tags := ts; changes := []; queue := []; now := 0; out := []; rep := map visible ts |}.
Definition exec (ts : list tag) (ops : list op) : st := fold_left step ops (init ts).

(* ---------- correspondence interface ---------- *)
Definition input := (list (Z * Z * bool * Z) * list op)%type.
Definition output := list (list (nat * Z * Z) * list Z).
Definition mk_tag (x : Z * Z * bool * Z) : tag :=
  let '(v, sv, sd, stp) := x in {| t_val := v; t_sim := sv; t_simd := sd; t_stamp := stp |}.
Definition run (i : input) : output :=
  map (fun r => (r_entries r, r_truth r)) (out (exec (map mk_tag (fst i)) (snd i))).

Definition e3_eqb (a b : nat * Z * Z) : bool :=
  let '(a1, a2, a3) := a in let '(b1, b2, b3) := b in Nat.eqb a1 b1 && (a2 =? b2) && (a3 =? b3).
Definition rep_eqb (a b : list (nat * Z * Z) * list Z) : bool :=
  list_eqb e3_eqb (fst a) (fst b) && list_eqb Z.eqb (snd a) (snd b).
Definition out_eqb : output -> output -> bool := list_eqb rep_eqb.

(* ---------- C36 monitor: on the IMPLEMENTATION's reports and ground-truth tag values ---------- *)
(* last : value last reported per tag (starts as the initial visible values).  A report is complete
   when every tag whose true value differs from the last reported one is an entry carrying the true
   value; it has no duplicates; a snapshot lists every tag. *)
Fixpoint nodup_ids (l : list nat) : bool :=
  match l with [] => true | i :: l' => negb (mem i l') && nodup_ids l' end.

Definition lookup (es : list (nat * Z * Z)) (i : nat) : option Z :=
  match find (fun e => Nat.eqb (fst (fst e)) i) es with Some e => Some (snd (fst e)) | None => None end.

Fixpoint complete_from (i : nat) (truth last : list Z) (es : list (nat * Z * Z)) : bool :=
  match truth, last with
  | tv :: truth', lv :: last' =>
      (match lookup es i with
       | Some v => v =? tv
       | None => tv =? lv
       end) && complete_from (S i) truth' last' es
  | [], [] => true
  | _, _ => false
  end.

Fixpoint new_last (i : nat) (last : list Z) (es : list (nat * Z * Z)) : list Z :=
  match last with
  | [] => []
  | lv :: last' => (match lookup es i with Some v => v | None => lv end) :: new_last (S i) last' es
  end.

Fixpoint collects (ops : list op) : list bool :=
  match ops with
  | [] => []
  | OCollect b :: ops' => b :: collects ops'
  | _ :: ops' => collects ops'
  end.

Fixpoint c36_check (snaps : list bool) (reps : output) (last : list Z) : bool :=
  match snaps, reps with
  | [], [] => true
  | snap :: snaps', (es, truth) :: reps' =>
      nodup_ids (map (fun e => fst (fst e)) es)
      && complete_from 0 truth last es
      && (if snap then Nat.eqb (length es) (length truth) else true)
      && c36_check snaps' reps' (new_last 0 last es)
  | _, _ => false
  end.

Definition c36_holds_b (i : input) (o : output) : bool :=
  c36_check (collects (snd i)) o (map (fun x => visible (mk_tag x)) (fst i)).

(* ---------- C16 monitor: time stamps of reported values ---------- *)
(* For every entry whose value differs from the value last reported for that tag (so it was set
   after the previous report): the stamp is the engine time of a tick after the previous report and
   not after the current tick; per tag, stamps never decrease; tags that were ever simulated are
   only required to carry an engine tick time in range (simulate/stop re-stamp semantics). *)
Fixpoint c16_entries (es : list (nat * Z * Z)) (last lastst : list Z) (ticks : list Z) (prev nowt : Z)
  (simd : list nat) : bool :=
  match es with
  | [] => true
  | (i, v, stp) :: es' =>
      let lv := nth i last 0 in
      let ls := nth i lastst 0 in
      (if v =? lv then true
       else existsb (Z.eqb stp) ticks && (stp <=? nowt)
            && (if mem i simd then true else (prev <=? stp)) && (ls <=? stp))
      && c16_entries es' last lastst ticks prev nowt simd
  end.

Fixpoint new_lastst (i : nat) (lastst : list Z) (es : list (nat * Z * Z)) : list Z :=
  match lastst with
  | [] => []
  | ls :: l' => (match find (fun e => Nat.eqb (fst (fst e)) i) es with Some e => snd e | None => ls end)
                :: new_lastst (S i) l' es
  end.

(* walk the ops (for tick times, collect positions and which tags were simulated) alongside the reports *)
Fixpoint c16_walk (ops : list op) (reps : output) (last lastst ticks : list Z) (prev nowt : Z) (simd : list nat) : bool :=
  match ops with
  | [] => match reps with [] => true | _ => false end
  | OTick t :: ops' => c16_walk ops' reps last lastst (t :: ticks) prev t simd
  | OSim i _ _ :: ops' => c16_walk ops' reps last lastst ticks prev nowt (add i simd)
  | ORawFlag i _ :: ops' => c16_walk ops' reps last lastst ticks prev nowt (add i simd)
  | OCollect _ :: ops' =>
      match reps with
      | (es, _) :: reps' =>
          c16_entries es last lastst ticks prev nowt simd
          && c16_walk ops' reps' (new_last 0 last es) (new_lastst 0 lastst es) ticks nowt nowt simd
      | [] => false
      end
  | _ :: ops' => c16_walk ops' reps last lastst ticks prev nowt simd
  end.

Definition c16_holds_b (i : input) (o : output) : bool :=
  let ts := map mk_tag (fst i) in
  c16_walk (snd i) o (map visible ts) (map t_stamp ts) [] (-1) (-1)
           (map fst (filter (fun p => t_simd (snd p)) (combine (seq 0 (length ts)) ts))).
