(* The P-code interpreter (openpectus/lang/exec/pinterpreter.py), stage A: Program, Blank/Comment, Mark, Block, End block,
   End blocks, Watch, Alarm, Wait, Noop, command lines, simple instructions, invalid instructions, thresholds.
   Generators are defunctionalised: a generator is a stack of frames; one constructor per suspension point or
   continuation. The environment of a tick is an input: which nodes still await their threshold, which conditions hold /
   raise, the tick time, and which pending command lines have been completed by the command manager. *)
From Coq Require Import ZArith List Bool Arith.
From OP Require Import lib.Obs.
From OP Require model.MacroSearch.
Import ListNotations.
Open Scope Z_scope.

Inductive kind := KProgram | KBlank (trailing : bool) | KMark | KBlock | KEndBlock | KEndBlocks | KWatch | KAlarm
                | KWait (dur : Z)          (* duration in tenths of a second *)
                | KNoop (count : nat) | KCmd | KSimple | KError
                | KInjected                   (* the root of an injected snippet: not part of the method tree *)
                | KMacro (name : nat)         (* Macro: <name> -- the definition; its children are the body *)
                | KCallMacro (name : nat).    (* Call macro: <name> *)
Record node := { n_kind : kind; n_parent : option nat; n_children : list nat; n_thr : bool }.
Definition program := list node.

Record ns := {
  started : bool; completed : bool; failed : bool; child_index : nat; children_complete : bool;
  lock_acquired : bool; block_ended : bool; activated : bool; interrupt_registered : bool; run_count : nat;
  wait_start : option Z; cancelled : bool; forced : bool }.
Definition ns0 : ns := {| started := false; completed := false; failed := false; child_index := 0; children_complete := false;
  lock_acquired := false; block_ended := false; activated := false; interrupt_registered := false; run_count := 0;
  wait_start := None; cancelled := false; forced := false |}.

Inductive frame :=
| FVisit (n : nat) | FThr (n : nat) | FNodeTick (n : nat) | FVisitEnd (n : nat)
| FKidsEntry (n : nat) | FKids (n i : nat) | FKidsAfter (n i : nat)
| FRet
| FProgAfter | FProgIdle
| FMark1 (n : nat)
| FBlankIdle (n : nat) | FBlank1 (n : nat)
| FBlkA (n : nat) | FBlkWait (n : nat) | FBlkB (n : nat) | FBlkC (n : nat) | FBlkEnd (n : nat)
| FWait (n : nat) (stop : Z) | FNoop (n i : nat)
| FWatchAwait (n : nat) | FWatchInv (n : nat) | FWatchBody (n : nat)
| FAlarmAwait (n : nat) | FAlarmInv (n : nat) | FAlarmBody (n : nat) | FAlarmPost (n : nat)
| FInjAfter (n : nat)
| FMacro1 (n : nat) | FCallAfter (n m : nat).
Definition stack := list frame.

Record env := { e_time : Z; e_thr_wait : list nat; e_cond_true : list nat; e_cond_err : list nat }.

Record S := {
  nodes : list ns;
  ints : list (nat * (nat * stack));  (* the interrupt map, in dict order: node -> (generator serial, generator) *)
  serial : nat;                       (* generators created so far *)
  last_error : option nat;
  block_tag : option nat;
  scheduled : nat;                    (* commands passed to the engine in this tick *)
  marks : list nat;                   (* Mark lines executed, oldest first *)
  macros : list (nat * nat) }.        (* ProgramNode.macros: name -> the Macro node registered last under that name *)

Inductive res := REnd | RCont | RExhausted.

Definition memn (x : nat) (l : list nat) : bool := existsb (Nat.eqb x) l.

Section Prog.
  Variable p : program.

  Definition nd (n : nat) : node := nth n p {| n_kind := KError; n_parent := None; n_children := []; n_thr := false |}.
  Definition st (s : S) (n : nat) : ns := nth n (nodes s) ns0.
  Fixpoint upd {A} (l : list A) (i : nat) (x : A) : list A :=
    match l, i with [], _ => [] | _ :: l', O => x :: l' | y :: l', Datatypes.S i' => y :: upd l' i' x end.
  Definition set_ns (s : S) (n : nat) (x : ns) : S :=
    {| nodes := upd (nodes s) n x; ints := ints s; serial := serial s; last_error := last_error s; block_tag := block_tag s;
       scheduled := scheduled s; marks := marks s; macros := macros s |}.
  Definition with_ints (s : S) (i : list (nat * (nat * stack))) (sr : nat) : S :=
    {| nodes := nodes s; ints := i; serial := sr; last_error := last_error s; block_tag := block_tag s; scheduled := scheduled s; marks := marks s; macros := macros s |}.

  (* field updates *)
  Definition set_started (x : ns) (b : bool) : ns :=
    {| started := b; completed := completed x; failed := failed x; child_index := child_index x; children_complete := children_complete x;
       lock_acquired := lock_acquired x; block_ended := block_ended x; activated := activated x; interrupt_registered := interrupt_registered x;
       run_count := run_count x; wait_start := wait_start x; cancelled := cancelled x; forced := forced x |}.
  Definition set_completed (x : ns) (b : bool) : ns :=
    {| started := started x; completed := b; failed := failed x; child_index := child_index x; children_complete := children_complete x;
       lock_acquired := lock_acquired x; block_ended := block_ended x; activated := activated x; interrupt_registered := interrupt_registered x;
       run_count := run_count x; wait_start := wait_start x; cancelled := cancelled x; forced := forced x |}.
  Definition set_failed (x : ns) (b : bool) : ns :=
    {| started := started x; completed := completed x; failed := b; child_index := child_index x; children_complete := children_complete x;
       lock_acquired := lock_acquired x; block_ended := block_ended x; activated := activated x; interrupt_registered := interrupt_registered x;
       run_count := run_count x; wait_start := wait_start x; cancelled := cancelled x; forced := forced x |}.
  Definition set_kids (x : ns) (ci : nat) (cc : bool) : ns :=
    {| started := started x; completed := completed x; failed := failed x; child_index := ci; children_complete := cc;
       lock_acquired := lock_acquired x; block_ended := block_ended x; activated := activated x; interrupt_registered := interrupt_registered x;
       run_count := run_count x; wait_start := wait_start x; cancelled := cancelled x; forced := forced x |}.
  Definition set_block (x : ns) (lk en : bool) : ns :=
    {| started := started x; completed := completed x; failed := failed x; child_index := child_index x; children_complete := children_complete x;
       lock_acquired := lk; block_ended := en; activated := activated x; interrupt_registered := interrupt_registered x;
       run_count := run_count x; wait_start := wait_start x; cancelled := cancelled x; forced := forced x |}.
  Definition set_cond (x : ns) (ac ir : bool) (rc : nat) : ns :=
    {| started := started x; completed := completed x; failed := failed x; child_index := child_index x; children_complete := children_complete x;
       lock_acquired := lock_acquired x; block_ended := block_ended x; activated := ac; interrupt_registered := ir;
       run_count := rc; wait_start := wait_start x; cancelled := cancelled x; forced := forced x |}.
  Definition set_wait (x : ns) (w : option Z) : ns :=
    {| started := started x; completed := completed x; failed := failed x; child_index := child_index x; children_complete := children_complete x;
       lock_acquired := lock_acquired x; block_ended := block_ended x; activated := activated x; interrupt_registered := interrupt_registered x;
       run_count := run_count x; wait_start := w; cancelled := cancelled x; forced := forced x |}.

  (* tracking.mark_completed: the node is completed unless it has failed *)
  Definition mark_completed (s : S) (n : nat) : S :=
    if failed (st s n) then s else set_ns s n (set_completed (st s n) true).
  Definition complete (s : S) (n : nat) : S := set_ns s n (set_completed (st s n) true).

  (* static structure *)
  Fixpoint ancestors_fuel (fuel : nat) (n : nat) : list nat :=
    match fuel with
    | O => []
    | Datatypes.S f => match n_parent (nd n) with Some q => q :: ancestors_fuel f q | None => [] end
    end.
  Definition ancestors (n : nat) : list nat := ancestors_fuel (length p) n.
  Definition is_block (n : nat) : bool := match n_kind (nd n) with KBlock => true | _ => false end.
  Definition in_ended_block (s : S) (n : nat) : bool :=
    existsb (fun a => is_block a && block_ended (st s a)) (ancestors n).
  (* the node belongs to the method tree (its chain of parents ends in the program root), not to an injected snippet *)
  Definition in_method (n : nat) : bool :=
    match rev (ancestors n) with r :: _ => Nat.eqb r 0 | [] => Nat.eqb n 0 end.
  (* ProgramNode.get_locked_blocks: the locked blocks OF THE METHOD TREE, innermost (largest pre-order index) first *)
  Definition locked_blocks (s : S) : list nat :=
    rev (filter (fun n => is_block n && in_method n && lock_acquired (st s n)) (seq 0 (length p))).
  (* the blocks End block / End blocks work on: locked and not yet ended *)
  Definition active_blocks (s : S) : list nat := filter (fun b => negb (block_ended (st s b))) (locked_blocks s).
  Fixpoint descendants_fuel (fuel : nat) (n : nat) : list nat :=
    match fuel with
    | O => []
    | Datatypes.S f => flat_map (fun c => c :: descendants_fuel f c) (n_children (nd n))
    end.
  Definition descendants (n : nat) : list nat := descendants_fuel (length p) n.

  (* node.reset_runtime_state(recursive=True) on one node *)
  Definition reset_one (x : ns) (k : kind) : ns :=
    let x1 := {| started := false; completed := false; failed := failed x; child_index := child_index x;
                 children_complete := children_complete x; lock_acquired := lock_acquired x; block_ended := block_ended x;
                 activated := activated x; interrupt_registered := interrupt_registered x; run_count := run_count x;
                 wait_start := wait_start x; cancelled := false; forced := false |} in
    match k with
    | KProgram | KWatch | KAlarm | KBlock | KInjected =>
        let x2 := set_kids x1 0 false in
        let x3 := set_cond x2 (match k with KWatch | KAlarm => false | _ => activated x2 end) false (run_count x2) in
        match k with KBlock => set_block x3 false false | _ => x3 end
    | KWait _ => set_wait x1 None
    | KMacro _ => set_kids x1 0 false         (* is_registered and the run counters deliberately survive *)
    | _ => x1
    end.
  Definition reset_tree (s : S) (n : nat) : S :=
    fold_left (fun s m => set_ns s m (reset_one (st s m) (n_kind (nd m)))) (n :: descendants n) s.

  (* the interrupt map *)
  Fixpoint put_int (l : list (nat * (nat * stack))) (n : nat) (g : nat * stack) : list (nat * (nat * stack)) :=
    match l with
    | [] => [(n, g)]
    | (m, g0) :: l' => if Nat.eqb m n then (m, g) :: l' else (m, g0) :: put_int l' n g
    end.
  Definition del_int (l : list (nat * (nat * stack))) (n : nat) : list (nat * (nat * stack)) :=
    filter (fun x => negb (Nat.eqb (fst x) n)) l.
  (* _register_interrupt: a Watch / Alarm inside a block that has ended is not registered (it ended with its block) *)
  Definition register_interrupt (s : S) (n : nat) : S :=
    if in_ended_block s n then s else
    let s1 := with_ints s (put_int (ints s) n (serial s, [FVisit n])) (Datatypes.S (serial s)) in
    set_ns s1 n (set_cond (st s1 n) (activated (st s1 n)) true (run_count (st s1 n))).
  Definition unregister_interrupt (s : S) (n : nat) : S :=
    let s1 := set_ns s n (set_cond (st s n) (activated (st s n)) false (run_count (st s n))) in
    with_ints s1 (del_int (ints s1) n) (serial s1).
  (* _abort_block_interrupts *)
  Definition abort_block_interrupts (s : S) (b : nat) : S :=
    fold_left (fun s x => if memn (fst x) (descendants b)
                          then unregister_interrupt (set_ns s (fst x) (set_kids (st s (fst x)) (child_index (st s (fst x))) true)) (fst x)
                          else s) (ints s) s.
  Definition end_block (s : S) (b : nat) : S :=
    abort_block_interrupts (set_ns s b (set_block (st s b) (lock_acquired (st s b)) true)) b.

  Definition awaiting (e : env) (s : S) (n : nat) : bool :=
    negb (completed (st s n)) && n_thr (nd n) && negb (forced (st s n)) && memn n (e_thr_wait e).

  (* ---------- one transition of a generator: the top frame runs until it yields, returns or pushes ---------- *)
  Inductive outcome :=
  | Yield (r : res) (k : stack) (s : S)        (* the generator suspends *)
  | Go (k : stack) (s : S)                     (* control continues with this stack (a return into the frame below, or a push) *)
  | Raise (k : stack) (s : S).                 (* an exception propagates from the frame that was on top *)

  Definition with_tag (s : S) (t : option nat) : S :=
    {| nodes := nodes s; ints := ints s; serial := serial s; last_error := last_error s; block_tag := t; scheduled := scheduled s; marks := marks s; macros := macros s |}.
  Definition add_mark (s : S) (n : nat) : S :=
    {| nodes := nodes s; ints := ints s; serial := serial s; last_error := last_error s; block_tag := block_tag s; scheduled := scheduled s; marks := marks s ++ [n]; macros := macros s |}.
  Definition add_sched (s : S) : S :=
    {| nodes := nodes s; ints := ints s; serial := serial s; last_error := last_error s; block_tag := block_tag s; scheduled := Datatypes.S (scheduled s); marks := marks s; macros := macros s |}.
  Definition set_error (s : S) (n : nat) : S :=
    {| nodes := nodes s; ints := ints s; serial := serial s; last_error := Some n; block_tag := block_tag s; scheduled := scheduled s; marks := marks s; macros := macros s |}.

  (* ---------- macros ---------- *)
  (* a Macro node keeps its own bookkeeping in fields it does not otherwise use: is_registered in interrupt_registered,
     run_started_count in run_count, run_completed_count in wait_start *)
  Definition with_macros (s : S) (l : list (nat * nat)) : S :=
    {| nodes := nodes s; ints := ints s; serial := serial s; last_error := last_error s; block_tag := block_tag s;
       scheduled := scheduled s; marks := marks s; macros := l |}.
  Fixpoint macro_lookup (l : list (nat * nat)) (nm : nat) : option nat :=
    match l with [] => None | (k, m) :: l' => if Nat.eqb k nm then Some m else macro_lookup l' nm end.
  Fixpoint macro_put (l : list (nat * nat)) (nm m : nat) : list (nat * nat) :=
    match l with [] => [(nm, m)] | (k, m0) :: l' => if Nat.eqb k nm then (k, m) :: l' else (k, m0) :: macro_put l' nm m end.
  Definition run_completed (x : ns) : nat := match wait_start x with Some z => Z.to_nat z | None => 0 end.
  (* the names a macro body calls, in source order: nested blocks / watches / alarms included, nested definitions not *)
  Fixpoint calls_fuel (fuel : nat) (n : nat) : list nat :=
    match fuel with
    | O => []
    | Datatypes.S f => flat_map (fun c => match n_kind (nd c) with
                                          | KCallMacro nm => [nm]
                                          | KMacro _ => []
                                          | _ => calls_fuel f c
                                          end) (n_children (nd n))
    end.
  Definition calls_of (m : nat) : list nat := calls_fuel (length p) m.
  (* visit_CallMacroNode's check: would calling macro nm (node m) make it call itself *)
  Definition would_recurse (s : S) (nm m : nat) : bool :=
    MacroSearch.refused (map (fun e => (fst e, calls_of (snd e))) (macro_put (macros s) nm m)) nm.

  (* after the threshold has passed: started, path pushed, visit_Node yields EndTick *)
  Definition enter (n : nat) (k : stack) (s : S) : outcome :=
    Yield REnd (FNodeTick n :: FVisitEnd n :: k) (set_ns s n (set_started (st s n) true)).
  (* _is_in_ended_block also walks the execution path: below a macro call that path holds the call node, whose own
     enclosing blocks are not static ancestors of the macro body *)
  Fixpoint path_ended (s : S) (k : stack) : bool :=
    match k with
    | [] => false
    | FCallAfter n _ :: k' => in_ended_block s n || path_ended s k'
    | _ :: k' => path_ended s k'
    end.
  Definition ended_here (s : S) (n : nat) (k : stack) : bool := in_ended_block s n || path_ended s k.
  Definition thr_loop (e : env) (n : nat) (k : stack) (s : S) : outcome :=
    if awaiting e s n then (if ended_here s n k then Go k s else Yield REnd (FThr n :: k) s) else enter n k s.

  Definition try_activate (e : env) (s : S) (n : nat) : option S :=      (* None: the condition evaluation raised *)
    if cancelled (st s n) then Some s                                     (* a cancelled node is never activated *)
    else if forced (st s n) then Some (set_ns s n (set_cond (st s n) true (interrupt_registered (st s n)) (run_count (st s n))))
    else if memn n (e_cond_err e) then None
    else if memn n (e_cond_true e)
         then Some (set_ns s n (set_cond (st s n) true (interrupt_registered (st s n)) (run_count (st s n))))
         else Some s.

  Definition can_lock (s : S) (n : nat) : bool := forallb (fun b => memn b (ancestors n)) (locked_blocks s).

  Definition block_release (n : nat) (k : stack) (s : S) : outcome :=
    let x := st s n in
    let x1 := set_block x false (block_ended x) in
    let x2 := set_kids x1 (length (n_children (nd n))) true in
    Go k (mark_completed (set_ns s n (set_completed x2 true)) n).
  Definition block_try (n : nat) (k : stack) (s : S) : outcome :=
    if can_lock s n
    then Yield RCont (FBlkB n :: k) (with_tag (set_ns s n (set_block (st s n) true (block_ended (st s n)))) (Some n))
    else Yield REnd (FBlkWait n :: k) s.
  Definition block_wait_end (n : nat) (k : stack) (s : S) : outcome :=
    if block_ended (st s n) then block_release n k s else Yield REnd (FBlkEnd n :: k) s.

  Definition watch_await (e : env) (in_int : bool) (n : nat) (k : stack) (s : S) : outcome :=
    (* the loop `while not node.activated` of visit_WatchNode, entered at its condition *)
    if activated (st s n) then Yield RCont (FWatchInv n :: k) s
    else if cancelled (st s n) then Go k s
    else match try_activate e s n with
         | Some s' => Yield REnd (FWatchAwait n :: k) s'
         | None => Raise k s
         end.
  Definition alarm_await (e : env) (n : nat) (k : stack) (s : S) : outcome :=
    if activated (st s n) then Yield RCont (FAlarmInv n :: k) s
    else match try_activate e s n with
         | Some s' => Yield REnd (FAlarmAwait n :: k) s'
         | None => Raise k s
         end.

  (* the beginning of the concrete visit of node n *)
  Definition dispatch (e : env) (in_int : bool) (n : nat) (k : stack) (s : S) : outcome :=
    match n_kind (nd n) with
    | KProgram => if completed (st s n) then Yield RCont (FRet :: k) s else Go (FKidsEntry n :: FProgAfter :: k) s
    | KBlank trailing =>
        if trailing then Yield REnd (FBlankIdle n :: k) (set_ns s n (set_started (st s n) false))
        else Yield RCont (FBlank1 n :: k) (set_ns s n (set_started (st s n) true))
    | KMark => if completed (st s n) then Raise k s          (* `assert not node.completed` (another generator completed it) *)
               else Yield RCont (FMark1 n :: k) (add_mark s n)
    | KBlock =>
        if completed (st s n) then Go k (set_ns s n (set_block (st s n) false (block_ended (st s n))))
        else if block_ended (st s n) then block_release n k s
        else if lock_acquired (st s n) then Go (FKidsEntry n :: FBlkC n :: k) s
        else Yield RCont (FBlkA n :: k) s
    | KEndBlock =>
        let s1 := match active_blocks s with
                  | [] => s
                  | old :: rest => end_block (with_tag s (match rest with b :: _ => Some b | [] => None end)) old
                  end in
        Yield REnd (FRet :: k) (mark_completed (complete s1 n) n)
    | KEndBlocks =>
        let s1 := fold_left end_block (active_blocks s) s in
        Yield REnd (FRet :: k) (mark_completed (complete (with_tag s1 None) n) n)
    | KWait dur =>
        let start := match wait_start (st s n) with Some w => w | None => e_time e end in
        let s1 := set_ns s n (set_wait (st s n) (Some start)) in
        if dur - 1 <? 0 then Go k s1
        else if (e_time e <? start + dur - 1) && negb (forced (st s1 n)) then Yield REnd (FWait n (start + dur - 1) :: k) s1
        else Yield REnd (FRet :: k) (mark_completed (complete s1 n) n)
    | KNoop count =>
        match count with
        | O | Datatypes.S O => Yield RCont (FRet :: k) (mark_completed s n)
        | _ => Yield REnd (FNoop n 0 :: k) s
        end
    | KCmd => Yield REnd (FRet :: k) (add_sched s)
    | KSimple => Yield REnd (FRet :: k) (mark_completed (complete s n) n)
    | KError => Raise k (set_ns s n (set_failed (st s n) true))
    | KInjected => Go (FKidsEntry n :: FInjAfter n :: k) s          (* visit_InjectedNode: the children, then completed *)
    | KMacro nm =>                                                  (* the definition: register, complete; the body does not run *)
        let s1 := if interrupt_registered (st s n) then s
                  else set_ns (with_macros s (macro_put (macros s) nm n)) n
                              (set_cond (st s n) (activated (st s n)) true (run_count (st s n))) in
        Yield RCont (FMacro1 n :: k) s1
    | KCallMacro nm =>
        match macro_lookup (macros s) nm with
        | None => Raise k s                                         (* no macro of that name *)
        | Some m =>
            if would_recurse s nm m then Raise k s
            else match n_kind (nd m) with KMacro _ =>
              let x := st s m in
              let s1 := if Nat.leb (run_count x) (run_completed x)
                        then let s' := reset_tree s m in
                             set_ns s' m (set_cond (st s' m) (activated (st s' m)) (interrupt_registered (st s' m))
                                                   (Datatypes.S (run_count (st s' m))))
                        else s in                                   (* complete a started call *)
              Go (FKidsEntry m :: FCallAfter n m :: k) s1
            | _ => Raise k s end                                    (* the registry only holds Macro nodes *)
        end
    | KWatch =>
        if negb (interrupt_registered (st s n)) then Yield REnd (FRet :: k) (register_interrupt s n)
        else if negb in_int then Yield REnd (FRet :: k) s
        else if cancelled (st s n) then Go k s
        else watch_await e in_int n k s
    | KAlarm =>
        if negb (interrupt_registered (st s n)) then Yield REnd (FRet :: k) (register_interrupt s n)
        else if negb in_int then Yield REnd (FRet :: k) s
        else alarm_await e n k s
    end.

  Definition step (e : env) (in_int : bool) (f : frame) (k : stack) (s : S) : outcome :=
    match f with
    | FVisit n =>
        if completed (st s n) then Yield RCont (FRet :: k) s
        else if negb (started (st s n)) then thr_loop e n k s else enter n k s
    | FThr n => thr_loop e n k s
    | FNodeTick n => dispatch e in_int n k s
    | FVisitEnd n => Go k s
    | FKidsEntry n =>
        if completed (st s n) || children_complete (st s n) then Yield RCont (FRet :: k) s else Go (FKids n 0 :: k) s
    | FKids n i =>
        let x := st s n in
        match nth_error (n_children (nd n)) i with
        | None => Go k (set_ns s n (set_kids x (child_index x) true))
        | Some c =>
            if children_complete x || completed x then Go k (set_ns s n (set_kids x (child_index x) true))
            else if Nat.ltb i (child_index x) then Go (FKids n (Datatypes.S i) :: k) s
            else if ended_here s c k then Go k (set_ns s n (set_kids x (child_index x) true))
            else Go (FVisit c :: FKidsAfter n i :: k) s
        end
    | FKidsAfter n i =>
        let x := st s n in Go (FKids n (Datatypes.S i) :: k) (set_ns s n (set_kids x (Datatypes.S (child_index x)) (children_complete x)))
    | FRet => Go k s
    | FProgAfter => Yield REnd (FProgIdle :: k) s
    | FProgIdle => Yield REnd (FProgIdle :: k) s
    | FMark1 n => Yield REnd (FRet :: k) (mark_completed (complete s n) n)
    | FBlankIdle n => Yield REnd (FBlankIdle n :: k) s
    | FBlank1 n => Yield RCont (FRet :: k) (complete s n)
    | FBlkA n => if lock_acquired (st s n) then Go (FKidsEntry n :: FBlkC n :: k) s else block_try n k s
    | FBlkWait n => if lock_acquired (st s n) then Go (FKidsEntry n :: FBlkC n :: k) s else block_try n k s
    | FBlkB n => Go (FKidsEntry n :: FBlkC n :: k) s
    | FBlkC n => block_wait_end n k s
    | FBlkEnd n => block_wait_end n k s
    | FWait n stop =>
        if (e_time e <? stop) && negb (forced (st s n)) then
          (* the progress computation reads node.wait_start_time, which a reset of the subtree (alarm re-arm while
             another generator is still inside this Wait) has cleared: TypeError *)
          match wait_start (st s n), n_kind (nd n) with
          | None, KWait dur => if 0 <? dur - 1 then Raise k s else Yield REnd (FWait n stop :: k) s
          | _, _ => Yield REnd (FWait n stop :: k) s
          end
        else Yield REnd (FRet :: k) (mark_completed (complete s n) n)
    | FNoop n i =>
        match n_kind (nd n) with
        | KNoop count => if Nat.ltb (Datatypes.S i) (count - 1) then Yield REnd (FNoop n (Datatypes.S i) :: k) s
                         else Yield RCont (FRet :: k) (mark_completed s n)
        | _ => Go k s
        end
    | FWatchAwait n => watch_await e in_int n k s
    | FWatchInv n => Go (FKidsEntry n :: FWatchBody n :: k) s
    | FWatchBody n => Yield RCont (FRet :: k) (mark_completed (complete s n) n)
    | FAlarmAwait n => match n_kind (nd n) with KAlarm => alarm_await e n k s | _ => Go k s end   (* this frame only exists for alarm nodes *)
    | FAlarmInv n => Go (FKidsEntry n :: FAlarmBody n :: k) s
    | FAlarmBody n => Yield RCont (FAlarmPost n :: k) s
    | FAlarmPost n =>
        match n_kind (nd n) with KAlarm => 
        let s1 := mark_completed s n in
        let x := st s1 n in
        let s2 := set_ns s1 n (set_cond x (activated x) (interrupt_registered x) (Datatypes.S (run_count x))) in
        let s3 := unregister_interrupt s2 n in
        let s4 := reset_tree s3 n in
        Yield REnd (FRet :: k) (register_interrupt s4 n)
        | _ => Go k s          (* this frame only exists for alarm nodes *)
        end
    | FInjAfter n => Yield REnd (FRet :: k) (mark_completed (complete s n) n)
    | FMacro1 n => Yield REnd (FRet :: k) (mark_completed (complete s n) n)
    | FCallAfter n m =>
        let xm := st s m in
        let s1 := set_ns s m (set_wait (set_completed xm true) (Some (Z.of_nat (Datatypes.S (run_completed xm))))) in
        Yield REnd (FRet :: k) (mark_completed (complete s1 n) n)
    end.

  (* an exception unwinds to the nearest enclosing visit, which records the failure and returns normally *)
  Fixpoint unwind (k : stack) (s : S) : option (stack * S) :=
    match k with
    | [] => None
    | FVisitEnd n :: k' => Some (k', set_error (set_ns s n (set_failed (st s n) true)) n)
    | _ :: k' => unwind k' s
    end.

  (* next(generator): run until it yields or is exhausted *)
  Fixpoint next_gen (fuel : nat) (e : env) (in_int : bool) (k : stack) (s : S) : option (res * stack * S) :=
    match fuel with
    | O => None
    | Datatypes.S f =>
        match k with
        | [] => Some (RExhausted, [], s)
        | fr :: k' =>
            match step e in_int fr k' s with
            | Yield r k2 s2 => Some (r, k2, s2)
            | Go k2 s2 => next_gen f e in_int k2 s2
            | Raise k2 s2 => match unwind k2 s2 with
                             | Some (k3, s3) => next_gen f e in_int k3 s3
                             | None => Some (RExhausted, [], s2)          (* not reachable: every frame sits above a visit *)
                             end
            end
        end
    end.

  (* drive one generator to the end of its tick: next() while it answers ContinueTick *)
  Fixpoint drive (rounds fuel : nat) (e : env) (in_int : bool) (k : stack) (s : S) : option (stack * S) :=
    match rounds with
    | O => None
    | Datatypes.S r =>
        match next_gen fuel e in_int k s with
        | None => None
        | Some (RCont, k2, s2) => drive r fuel e in_int k2 s2
        | Some (_, k2, s2) => Some (k2, s2)
        end
    end.

  (* store the generator back unless the map entry was deleted or replaced by a new generator meanwhile *)
  Fixpoint write_back (l : list (nat * (nat * stack))) (n sr : nat) (k : stack) : list (nat * (nat * stack)) :=
    match l with
    | [] => []
    | (m, (sr0, k0)) :: l' => if Nat.eqb m n && Nat.eqb sr0 sr then (m, (sr0, k)) :: l' else (m, (sr0, k0)) :: write_back l' n sr k
    end.

  Definition run_interrupts (rounds fuel : nat) (e : env) (snapshot : list (nat * (nat * stack))) (s : S) : option S :=
    fold_left (fun os x =>
                 match os with
                 | None => None
                 | Some s0 =>
                     match drive rounds fuel e true (snd (snd x)) s0 with
                     | None => None
                     | Some (k', s1) => Some (with_ints s1 (write_back (ints s1) (fst x) (fst (snd x)) k') (serial s1))
                     end
                 end) snapshot (Some s).

  (* PInterpreter.tick: the main generator, then every interrupt of the copy of the map taken after the main generator
     ran; returns the new main generator, the state and whether tick raised (an error is recorded) *)
  Definition tick (rounds fuel : nat) (e : env) (main : stack) (s : S) : option (stack * S * bool) :=
    let s0 := {| nodes := nodes s; ints := ints s; serial := serial s; last_error := last_error s; block_tag := block_tag s;
                 scheduled := 0; marks := marks s; macros := macros s |} in
    match drive rounds fuel e false main s0 with
    | None => None
    | Some (main', s1) =>
        match run_interrupts rounds fuel e (ints s1) s1 with
        | None => None
        | Some s2 => Some (main', s2, match last_error s2 with Some _ => true | None => false end)
        end
    end.

  (* the command manager reports a command line completed (tracking.mark_completed from outside the tick) *)
  Definition complete_cmd (s : S) (n : nat) : S :=
    match n_kind (nd n) with
    | KCmd => if started (st s n) && negb (completed (st s n)) then mark_completed s n else s
    | _ => s
    end.
End Prog.

