(* C07: method clocks advance only while running.
   Monitor on the clock events logged around Engine.update_calculated_tags (System State at that moment, the
   increment, the four clocks before and after), the run-start events, and the clock tags after every operation. *)
From Coq Require Import ZArith List Bool Arith.
From OP Require Import lib.Obs model.Eng model.EngRun.
Import ListNotations.
Open Scope Z_scope.

Definition input := EngRun.input.
Definition output := EngRun.output.
Definition run := EngRun.run.
Definition out_eqb := EngRun.out_eqb.

Definition active (s : sysst) : bool := negb (sys_eqb s Stopped || sys_eqb s Restarting).

(* one update of the calculated tags: Process Time advances by the increment iff the System State is Running, Run Time
   iff a run is active, and unless the state is Running Block Time and Scope Time keep their values *)
Definition clock_rule (s : sysst) (dt : Z) (b a : list Z) : bool :=
  match b, a with
  | [p; r; bt; st], [p'; r'; bt'; st'] =>
      (p' =? (if sys_eqb s Running then p + dt else p))
      && (r' =? (if active s then r + dt else r))
      && (sys_eqb s Running || ((bt' =? bt) && (st' =? st)))
  | _, _ => false
  end.

(* the tracked (Process Time, Run Time): zero when a run starts, otherwise what the last update left; every update
   must start from the tracked values (nothing else moves the two clocks) and obey clock_rule.
   Result: None = violated. *)
Fixpoint mon7 (cur : Z * Z) (evs : list ev) : option (Z * Z) :=
  match evs with
  | [] => Some cur
  | EStarted _ :: r => mon7 (0, 0) r
  | EClock s dt b a :: r =>
      if clock_rule s dt b a && (nth 0 b 0 =? fst cur) && (nth 1 b 0 =? snd cur)
      then mon7 (nth 0 a 0, nth 1 a 0) r else None
  | _ :: r => mon7 cur r
  end.

Fixpoint walk (cur : Z * Z) (vs : output) : bool :=
  match vs with
  | [] => true
  | v :: vs' =>
      match mon7 cur (v_events v) with
      | Some c => (nth 0 (v_clocks v) 0 =? fst c) && (nth 1 (v_clocks v) 0 =? snd c) && walk c vs'
      | None => false
      end
  end.

Definition holds_b (i : input) (o : output) : bool := walk (0, 0) o.
