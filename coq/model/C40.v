(* C40: a tick and a request as two threads over the Ser machine.  The shared state is a log of
   (thread, micro-step) marks, so an interleaved execution is visible in the state.  Whether the
   request's entry point takes the lock comes from gen/Sites.v. *)
From Coq Require Import List Bool Arith String.
From OP Require Import lib.Obs model.Ser gen.Sites.
Import ListNotations.
Local Open Scope string_scope.
Local Open Scope list_scope.

Definition log := list (nat * nat).
Definition mark (th k : nat) : log -> log := fun l => l ++ [(th, k)].
Definition marks (th n : nat) : list (log -> log) := map (mark th) (seq 0 n).

(* does Engine.<name> run its whole body under the lock? *)
Definition entry_locked (name : string) : bool :=
  match find (fun e => String.eqb (fst (fst e)) name) entry_points with
  | Some e => snd (fst e)
  | None => false
  end.

Inductive request := RSetMethod | RInject | RControl | RCancel | RForce.
Definition req_name (r : request) : string :=
  match r with
  | RSetMethod => "set_method" | RInject => "inject_code" | RControl => "execute_control_command_from_user"
  | RCancel => "cancel_instruction" | RForce => "force_instruction"
  end.

(* scenario: the tick body has kt micro-steps, the request body kr; one of the two threads is paused
   after `pos` micro-steps of its body (having entered it), then the other thread runs until it is done
   or blocked, then everything runs to completion. thread 0 = tick, thread 1 = request *)
(* reached = the paused thread really got to its pause point (otherwise the two bodies ran one after the other) *)
Record scenario := { kt : nat; kr : nat; req : request; pause_tick : bool; pos : nat; reached : bool }.

Definition threads_of (sc : scenario) : list (list (section log)) :=
  [[{| locked := tick_body_locked; steps := marks 0 (kt sc) |}];
   [{| locked := entry_locked (req_name (req sc)); steps := marks 1 (kr sc) |}]].

Definition sched_of (sc : scenario) : list nat :=
  let first := if pause_tick sc then 0 else 1 in
  let second := if pause_tick sc then 1 else 0 in
  let n := kt sc + kr sc + 4 in
  repeat first (1 + pos sc) ++ repeat second n ++ repeat first n ++ repeat second n.

Definition input := scenario.
(* what can be observed: the other thread had to wait; the order in which the bodies completed; the
   final state equals one of the two serial executions *)
Record obs := { o_waited : bool; o_order : list nat; o_serial : bool }.
Definition output := obs.

Definition log_eqb (a b : log) : bool := list_eqb (pair_eqb Nat.eqb Nat.eqb) a b.

Definition run (sc : scenario) : output :=
  if negb (reached sc) then {| o_waited := false; o_order := []; o_serial := true |} else
  let ts := threads_of sc in
  let first := if pause_tick sc then 0 else 1 in
  let second := if pause_tick sc then 1 else 0 in
  let c1 := Ser.run log [] ts (repeat first (1 + pos sc)) in
  let c2 := move log c1 second in
  let waited := match nth_error (threads c2) second with
                | Some t => match cur t with None => true | Some _ => false end
                | None => false end in
  let c := Ser.run log [] ts (sched_of sc) in
  let secs := map (fun l => hd {| locked := true; steps := [] |} l) ts in
  let s01 := run_serial log [] secs in
  let s10 := run_serial log [] (rev secs) in
  {| o_waited := waited; o_order := map fst (hist c);
     o_serial := log_eqb (state c) s01 || log_eqb (state c) s10 |}.

Definition out_eqb (a b : output) : bool :=
  Bool.eqb (o_waited a) (o_waited b) && list_eqb Nat.eqb (o_order a) (o_order b) && Bool.eqb (o_serial a) (o_serial b).

(* monitor on the implementation: the interleaved run ended in the state of one of the two serial runs
   and every request returned what it returned in that serial run *)
Definition holds_b (i : input) (o : output) : bool := o_serial o.
