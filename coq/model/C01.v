(* C01: live method edits. The interpreter model (model/Interp.v) runs one program at a time; an edit replaces the program.
   What MethodManager / Engine.set_method do with an edit during a run, AS THE CODE DOES IT:
   - while the manager's program is the interpreter's program: validate (a started or completed line may not change), then
     merge_method: the new interpreter gets a freshly parsed program; HotSwapVisitor is meant to carry the node states over
     but stops at the root (get_child_by_id excludes the node itself), so NO state is carried; the interrupts of the old
     interpreter are re-registered by node id; and the manager is left holding a second, stateless parse of the method;
   - hence at the next edit program_is_started is false and set_method simply loads the method afresh (no validation, no
     interrupts); after that the manager's program is the interpreter's again. *)
From Coq Require Import ZArith List Bool Arith.
From OP Require Import lib.Obs model.Interp model.InterpRun.
Import ListNotations.
Open Scope Z_scope.

Record edit := {
  e_prog : program;                 (* the parsed new method *)
  e_old : list (option nat);        (* per node of the new program: the node of the old program with the same line id *)
  e_changed : list nat }.           (* OLD nodes whose line content differs in the new method (same id) *)
Record seg := { g_edit : option edit; g_tick : tick_in }.    (* an optional edit, then a tick *)
Definition input := (program * list seg)%type.

Record eview := {
  ev_view : view;                   (* relative to the current program *)
  ev_accepted : option bool;        (* the edit before this tick: accepted / rejected; None: no edit *)
  ev_state : list nat * list nat }. (* the method state the manager reports after the tick: started, executed node ids *)
Definition output := list eview.

Record M := { m_p : program; m_main : stack; m_s : S; m_detached : bool }.

Definition index_of_old (omap : list (option nat)) (j : nat) : option nat :=
  (fix go (l : list (option nat)) (i : nat) : option nat :=
     match l with
     | [] => None
     | Some j' :: l' => if Nat.eqb j j' then Some i else go l' (Datatypes.S i)
     | None :: l' => go l' (Datatypes.S i)
     end) omap 0%nat.
(* a new interpreter on a freshly parsed program; the Block tag belongs to the engine and keeps naming its block (which
   may have moved; if the edit deleted it the observation shows node 0) *)
Definition fresh (p : program) (omap : list (option nat)) (s : S) : S :=
  {| nodes := repeat ns0 (length p); ints := []; serial := serial s; last_error := None;
     block_tag := match block_tag s with
                  | Some j => match index_of_old omap j with Some i => if is_block p i then Some i else Some 0%nat | None => Some 0%nat end
                  | None => None
                  end;
     scheduled := 0; marks := marks s; macros := [] |}.
Definition has_children (p : program) (n : nat) : bool :=
  match n_kind (nd p n) with KProgram | KBlock | KWatch | KAlarm => true | _ => false end.
(* started or completed (and not failed) lines may not be edited *)
Definition protected (s : S) (j : nat) : bool := negb (failed (st s j)) && (completed (st s j) || started (st s j)).
Definition apply_edit (m : M) (e : edit) : M * bool :=
  if m_detached m then
    (* set_method: the method is loaded afresh *)
    ({| m_p := e_prog e; m_main := [FVisit 0%nat]; m_s := fresh (e_prog e) (e_old e) (m_s m); m_detached := false |}, true)
  else if existsb (protected (m_s m)) (e_changed e) then (m, false)           (* MethodEditError *)
  else
    let s0 := fresh (e_prog e) (e_old e) (m_s m) in
    let s1 := fold_left (fun acc x => match index_of_old (e_old e) (fst x) with
                                      | Some i => if has_children (e_prog e) i then register_interrupt (e_prog e) acc i else acc
                                      | None => acc
                                      end) (ints (m_s m)) s0 in
    ({| m_p := e_prog e; m_main := [FVisit 0%nat]; m_s := s1; m_detached := true |}, true).

Definition method_state (m : M) : list nat * list nat :=
  if m_detached m then ([], [])
  else (filter (fun n => negb (failed (st (m_s m) n)) && negb (completed (st (m_s m) n)) && started (st (m_s m) n)) (seq 0 (length (m_p m))),
        filter (fun n => negb (failed (st (m_s m) n)) && completed (st (m_s m) n)) (seq 0 (length (m_p m)))).

Fixpoint run_segs (m : M) (now : Z) (gs : list seg) : output :=
  match gs with
  | [] => []
  | g :: gs' =>
      let (m1, acc) := match g_edit g with Some e => let (m', a) := apply_edit m e in (m', Some a) | None => (m, None) end in
      let t := g_tick g in
      let p := m_p m1 in
      let s1 := fold_left (complete_cmd p) (t_complete t) (m_s m1) in
      let now' := now + 5 * t_dt t in
      let e := {| e_time := now'; e_thr_wait := t_thr_wait t; e_cond_true := t_cond_true t; e_cond_err := t_cond_err t |} in
      match tick p (rounds_of p) (fuel_of p) e (m_main m1) s1 with
      | None => []
      | Some (main', s2, raised) =>
          let m2 := {| m_p := p; m_main := main'; m_s := s2; m_detached := m_detached m1 |} in
          {| ev_view := {| v_nodes := nodes s2; v_ints := map fst (ints s2); v_block := block_tag s2; v_sched := scheduled s2;
                           v_raised := raised; v_error := last_error s2 |};
             ev_accepted := acc; ev_state := method_state m2 |} :: run_segs m2 now' gs'
      end
  end.
Definition run (i : input) : output :=
  run_segs {| m_p := fst i; m_main := [FVisit 0%nat]; m_s := init (fst i); m_detached := false |} 0 (snd i).

Definition eview_eqb (a b : eview) : bool :=
  view_eqb (ev_view a) (ev_view b) && option_eqb Bool.eqb (ev_accepted a) (ev_accepted b)
  && list_eqb Nat.eqb (fst (ev_state a)) (fst (ev_state b)) && list_eqb Nat.eqb (snd (ev_state a)) (snd (ev_state b)).
Definition out_eqb : output -> output -> bool := list_eqb eview_eqb.

(* ---------- the property on the observation ---------- *)
Definition vst (v : eview) (n : nat) : ns := nth n (v_nodes (ev_view v)) ns0.
Definition is_blank (p : program) (n : nat) : bool := match n_kind (nd p n) with KBlank _ => true | _ => false end.
(* u: the view before the edit (old program po), v: the view after the edit and one tick (new program e_prog) *)
Definition edit_ok (po : program) (u v : eview) (e : edit) (accepted : bool) : bool :=
  let touched := existsb (fun j => negb (failed (vst u j)) && (completed (vst u j) || started (vst u j))) (e_changed e) in
  if accepted then
    (* an edit that changes a started line is rejected *)
    negb touched
    (* no progress is lost and nothing runs again: a line that had started is started, one that had completed is completed *)
    && forallb (fun ij => match snd ij with
                          | Some j => is_blank po j
                                      || ((negb (started (vst u j)) || started (vst v (fst ij)))
                                          && (negb (completed (vst u j)) || completed (vst v (fst ij))))
                          | None => true
                          end) (combine (seq 0 (length (e_old e))) (e_old e))
    (* the reported method state contains what it contained before *)
    && forallb (fun j => match index_of_old (e_old e) j with
                         | Some i => existsb (Nat.eqb i) (fst (ev_state v)) || existsb (Nat.eqb i) (snd (ev_state v))
                         | None => true
                         end) (fst (ev_state u) ++ snd (ev_state u))
  else touched.                       (* only such an edit is rejected *)
Definition eview0 (p : program) : eview :=
  {| ev_view := {| v_nodes := repeat ns0 (length p); v_ints := []; v_block := None; v_sched := 0%nat; v_raised := false; v_error := None |};
     ev_accepted := None; ev_state := ([], []) |}.
Fixpoint walk (p : program) (u : eview) (gs : list seg) (vs : output) : bool :=
  match gs, vs with
  | g :: gs', v :: vs' =>
      match g_edit g, ev_accepted v with
      | Some e, Some a => edit_ok p u v e a && walk (if a then e_prog e else p) v gs' vs'
      | None, None => walk p v gs' vs'
      | _, _ => false
      end
  | _, _ => true
  end.
Definition holds_b (i : input) (o : output) : bool := walk (fst i) (eview0 (fst i)) (snd i) o.
