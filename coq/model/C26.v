(* C26: protocol messages through JSON and back.
   serialize (model_dump + _type / _ns) -> the JSON text of the websocket RPC (pydantic's encoder) -> json.loads ->
   deserialize (class lookup + pydantic validation). Python values, JSON values and the types pydantic validates against
   are first-order trees; strings are opaque ids, finite floats opaque bit patterns (their text round-trips exactly). *)
From Coq Require Import ZArith List Bool Arith.
From OP Require Import lib.Obs.
Import ListNotations.

Inductive str := SId (n : nat)            (* a string of the message *)
               | SOfInt (z : Z)           (* the text of an int that was used as a dict key *)
               | SOfFloat (bits : Z).     (* the text of a float that was used as a dict key *)
Inductive fl := FFin (bits : Z) | FInf | FNegInf | FNaN.

Inductive pv :=                           (* python values held by message fields *)
| PNone | PBool (b : bool) | PInt (z : Z) | PFloat (f : fl) | PStr (s : str) | PEnum (s : nat)
| PList (l : list pv) | PSet (l : list pv) | PDict (l : list (pv * pv)) | PModel (l : list (nat * pv)).
Inductive jv :=                           (* JSON values *)
| JNull | JBool (b : bool) | JInt (z : Z) | JFloat (bits : Z) | JStr (s : str) | JArr (l : list jv) | JObj (l : list (str * jv)).
Inductive ty :=                           (* the annotation pydantic validates against *)
| TNull | TBool | TInt | TFloat | TStr | TEnum (vals : list nat)
| TOpt (t : ty)                           (* T | None *)
| TUnion (ts : list ty)                   (* a union of scalar types (smart mode) *)
| TList (t : ty) | TSet (t : ty) | TDict (k v : ty) | TModel (fs : list (nat * ty)).

Definition str_eqb (a b : str) : bool :=
  match a, b with
  | SId x, SId y => Nat.eqb x y | SOfInt x, SOfInt y => Z.eqb x y | SOfFloat x, SOfFloat y => Z.eqb x y | _, _ => false
  end.

(* ---------- serialize + JSON encoding ---------- *)
(* the text a dict key becomes: JSON object keys are strings *)
Definition key_text (k : pv) : str :=
  match k with PStr s => s | PInt z => SOfInt z | PFloat (FFin b) => SOfFloat b | PEnum s => SId s | _ => SId 0 end.
Fixpoint encode (v : pv) : jv :=
  match v with
  | PNone => JNull
  | PBool b => JBool b
  | PInt z => JInt z
  | PFloat (FFin b) => JFloat b
  | PFloat _ => JNull                     (* inf, -inf, nan: the encoder writes null *)
  | PStr s => JStr s
  | PEnum s => JStr (SId s)
  | PList l => JArr (map encode l)
  | PSet l => JArr (map encode l)
  | PDict l => JObj (map (fun kv => match kv with (k, x) => (key_text k, encode x) end) l)
  | PModel l => JObj (map (fun fv => match fv with (f, x) => (SId f, encode x) end) l)
  end.

(* ---------- validation (deserialize) ---------- *)
Definition is_scalar (t : ty) : bool := match t with TNull | TBool | TInt | TFloat | TStr => true | _ => false end.
Definition kind_matches (t : ty) (j : jv) : bool :=
  match t, j with
  | TNull, JNull | TBool, JBool _ | TInt, JInt _ | TFloat, JFloat _ | TStr, JStr _ => true
  | _, _ => false
  end.
Definition decode_scalar (t : ty) (j : jv) : option pv :=
  match t, j with
  | TNull, JNull => Some PNone
  | TBool, JBool b => Some (PBool b)
  | TInt, JInt z => Some (PInt z)
  | TFloat, JFloat b => Some (PFloat (FFin b))
  | TStr, JStr s => Some (PStr s)
  | _, _ => None
  end.
Fixpoint map_opt {A B} (f : A -> option B) (l : list A) : option (list B) :=
  match l with
  | [] => Some []
  | x :: l' => match f x, map_opt f l' with Some y, Some r => Some (y :: r) | _, _ => None end
  end.
Fixpoint lookup (k : str) (l : list (str * jv)) : option jv :=
  match l with [] => None | (k', x) :: l' => if str_eqb k k' then Some x else lookup k l' end.

Fixpoint decode (t : ty) (j : jv) : option pv :=
  match t with
  | TNull | TBool | TInt | TFloat | TStr => decode_scalar t j
  | TEnum vals => match j with JStr (SId s) => if existsb (Nat.eqb s) vals then Some (PEnum s) else None | _ => None end
  | TOpt t' => match j with JNull => Some PNone | _ => decode t' j end
  | TUnion ts =>                                        (* smart mode: the member of exactly the value's kind *)
      match find (fun t' => kind_matches t' j) ts with Some t' => decode_scalar t' j | None => None end
  | TList t' => match j with JArr l => option_map PList (map_opt (decode t') l) | _ => None end
  | TSet t' => match j with JArr l => option_map PSet (map_opt (decode t') l) | _ => None end
  | TDict k v =>
      match j with
      | JObj l => option_map PDict (map_opt (fun kx => match kx with (ks, x) =>
                                               match decode k (JStr ks), decode v x with
                                               | Some k', Some x' => Some (k', x') | _, _ => None end end) l)
      | _ => None
      end
  | TModel fs =>
      match j with
      | JObj l => option_map PModel
                    ((fix fields (fs : list (nat * ty)) : option (list (nat * pv)) :=
                        match fs with
                        | [] => Some []
                        | (f, ft) :: fs' =>
                            match lookup (SId f) l with
                            | Some x => match decode ft x, fields fs' with Some x', Some r => Some ((f, x') :: r) | _, _ => None end
                            | None => None
                            end
                        end) fs)
      | _ => None
      end
  end.

(* ---------- well-typed, clean values: what the round-trip theorem covers ---------- *)
Definition scalar_kind (t : ty) : nat := match t with TNull => 0 | TBool => 1 | TInt => 2 | TFloat => 3 | TStr => 4 | _ => 5 end.
Fixpoint nodupb (l : list nat) : bool := match l with [] => true | x :: l' => negb (existsb (Nat.eqb x) l') && nodupb l' end.
Definition plain_str (s : str) : bool := match s with SId _ => true | _ => false end.
Definition check_scalar (t : ty) (v : pv) : bool :=
  match t, v with
  | TNull, PNone | TBool, PBool _ | TInt, PInt _ | TFloat, PFloat (FFin _) => true
  | TStr, PStr s => plain_str s
  | _, _ => false
  end.
Definition not_none (v : pv) : bool := match v with PNone => false | _ => true end.
Fixpoint forall2b {A B} (f : A -> B -> bool) (l : list A) (m : list B) : bool :=
  match l, m with [] , [] => true | x :: l', y :: m' => f x y && forall2b f l' m' | _, _ => false end.
Fixpoint check (t : ty) (v : pv) : bool :=
  match t with
  | TNull | TBool | TInt | TFloat | TStr => check_scalar t v
  | TEnum vals => match v with PEnum s => existsb (Nat.eqb s) vals | _ => false end
  | TOpt t' => match v with PNone => true | _ => check t' v end
  | TUnion ts => forallb is_scalar ts && nodupb (map scalar_kind ts) && existsb (fun t' => check_scalar t' v) ts
  | TList t' => match v with PList l => forallb (check t') l | _ => false end
  | TSet t' => match v with PSet l => forallb (check t') l | _ => false end
  | TDict k x => match k, v with TStr, PDict l => forallb (fun kv => check_scalar TStr (fst kv) && check x (snd kv)) l | _, _ => false end
  | TModel fs =>
      match v with
      | PModel l => nodupb (map fst fs)
                    && (fix fields (fs : list (nat * ty)) (l : list (nat * pv)) : bool :=
                          match fs, l with
                          | [], [] => true
                          | (f, ft) :: fs', (g, x) :: l' => Nat.eqb f g && check ft x && fields fs' l'
                          | _, _ => false
                          end) fs l
      | _ => false
      end
  end.
(* T | None where T itself admits None is ambiguous; excluded from the theorem *)
Fixpoint wf (t : ty) : bool :=
  match t with
  | TOpt t' => wf t' && match t' with TNull | TOpt _ => false | TUnion ts => negb (existsb (fun x => match x with TNull => true | _ => false end) ts) | _ => true end
  | TList t' | TSet t' => wf t'
  | TDict k v => wf k && wf v
  | TModel fs => (fix all (fs : list (nat * ty)) : bool := match fs with [] => true | (_, ft) :: fs' => wf ft && all fs' end) fs
  | _ => true
  end.

(* ---------- the envelope: class lookup by namespace and type name ---------- *)
Record cls := { c_ns : nat; c_name : nat; c_ty : ty }.
Definition K_type : nat := 1.             (* ids of the keys "_type" and "_ns" *)
Definition K_ns : nat := 2.
Definition serialize (c : cls) (v : pv) : jv :=
  match encode v with
  | JObj l => JObj (l ++ [(SId K_type, JStr (SId (c_name c))); (SId K_ns, JStr (SId (c_ns c)))])
  | j => j
  end.
Definition deserialize (reg : list cls) (j : jv) : option (nat * nat * pv) :=     (* None: ProtocolDeserializationException *)
  match j with
  | JObj l =>
      match lookup (SId K_type) l, lookup (SId K_ns) l with
      | Some (JStr (SId n)), Some (JStr (SId ns)) =>
          match find (fun c => Nat.eqb (c_ns c) ns && Nat.eqb (c_name c) n) reg with
          | Some c => option_map (fun v => (ns, n, v)) (decode (c_ty c) j)
          | None => None
          end
      | _, _ => None
      end
  | _ => None
  end.

(* ---------- correspondence interface ---------- *)
Definition fl_eqb (a b : fl) : bool :=
  match a, b with FFin x, FFin y => Z.eqb x y | FInf, FInf | FNegInf, FNegInf | FNaN, FNaN => true | _, _ => false end.
Fixpoint pv_eqb (a b : pv) : bool :=
  match a, b with
  | PNone, PNone => true
  | PBool x, PBool y => Bool.eqb x y
  | PInt x, PInt y => Z.eqb x y
  | PFloat x, PFloat y => fl_eqb x y
  | PStr x, PStr y => str_eqb x y
  | PEnum x, PEnum y => Nat.eqb x y
  | PList l, PList m | PSet l, PSet m =>
      (fix go (l m : list pv) : bool := match l, m with [], [] => true | x :: l', y :: m' => pv_eqb x y && go l' m' | _, _ => false end) l m
  | PDict l, PDict m =>
      (fix go (l m : list (pv * pv)) : bool :=
         match l, m with [], [] => true | (k, x) :: l', (k', y) :: m' => pv_eqb k k' && pv_eqb x y && go l' m' | _, _ => false end) l m
  | PModel l, PModel m =>
      (fix go (l m : list (nat * pv)) : bool :=
         match l, m with [], [] => true | (f, x) :: l', (g, y) :: m' => Nat.eqb f g && pv_eqb x y && go l' m' | _, _ => false end) l m
  | _, _ => false
  end.
Fixpoint jv_eqb (a b : jv) : bool :=
  match a, b with
  | JNull, JNull => true
  | JBool x, JBool y => Bool.eqb x y
  | JInt x, JInt y => Z.eqb x y
  | JFloat x, JFloat y => Z.eqb x y
  | JStr x, JStr y => str_eqb x y
  | JArr l, JArr m =>
      (fix go (l m : list jv) : bool := match l, m with [], [] => true | x :: l', y :: m' => jv_eqb x y && go l' m' | _, _ => false end) l m
  | JObj l, JObj m =>
      (fix go (l m : list (str * jv)) : bool :=
         match l, m with [], [] => true | (k, x) :: l', (k', y) :: m' => str_eqb k k' && jv_eqb x y && go l' m' | _, _ => false end) l m
  | _, _ => false
  end.

Inductive input :=
| IMsg (reg : list cls) (c : cls) (v : pv)          (* a message object sent over the wire *)
| IEnv (reg : list cls) (j : jv).                   (* an arbitrary (malformed) envelope handed to deserialize *)
Definition result := option (nat * nat * pv).       (* namespace, class name, value -- or a protocol error *)
Definition output := (option jv * result)%type.     (* the JSON on the wire (for IMsg), what deserialize returns *)
Definition run (i : input) : output :=
  match i with
  | IMsg reg c v => (Some (serialize c v), deserialize reg (serialize c v))
  | IEnv reg j => (None, deserialize reg j)
  end.
Definition result_eqb (a b : result) : bool :=
  match a, b with
  | None, None => true
  | Some (ns, n, v), Some (ns', n', v') => Nat.eqb ns ns' && Nat.eqb n n' && pv_eqb v v'
  | _, _ => false
  end.
Definition out_eqb (a b : output) : bool :=
  match fst a, fst b with Some x, Some y => jv_eqb x y | None, None => true | _, _ => false end && result_eqb (snd a) (snd b).
(* the property on the observation: a message comes back unchanged and with the same type; an envelope that names no
   registered class (or lacks _type / _ns) is rejected *)
Definition named_class (reg : list cls) (j : jv) : bool :=
  match j with
  | JObj l => match lookup (SId K_type) l, lookup (SId K_ns) l with
              | Some (JStr (SId n)), Some (JStr (SId ns)) => existsb (fun c => Nat.eqb (c_ns c) ns && Nat.eqb (c_name c) n) reg
              | _, _ => false
              end
  | _ => false
  end.
Definition holds_b (i : input) (o : output) : bool :=
  match i with
  | IMsg reg c v => result_eqb (snd o) (Some (c_ns c, c_name c, v))
  | IEnv reg j => named_class reg j || match snd o with None => true | Some _ => false end
  end.
