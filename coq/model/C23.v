(* C23 interface: the Recovery model plus the C23 monitor. *)
From Coq Require Import ZArith List Bool Arith.
From OP Require Import lib.Obs gen.RecoveryConst.
From OP Require Export model.Recovery.
Import ListNotations.
Open Scope Z_scope.

Definition input := Recovery.input.
Definition output := Recovery.output.
Definition run : input -> output := Recovery.run.
Definition out_eqb : output -> output -> bool := Recovery.out_eqb.

Definition rw_op (o : op) : bool :=
  match o with Read _ _ | ReadBatch _ _ | Write _ _ _ _ | WriteBatch _ _ _ => true | _ => false end.

(* allowed state changes (the documented edges), by kind of operation *)
Definition edge_shape_b (x : rstate) (o : op) (x' : rstate) : bool :=
  state_eqb x x' ||
  match x, x' with
  | SDisconnected, SOK => match o with Connect true => true | _ => false end
  | SOK, SIssue | SIssue, SOK | SIssue, SReconnect | SReconnect, SError => rw_op o
  | SReconnect, SOK | SError, SOK => match o with Tick true => true | _ => false end
  | _, _ => false
  end.

Definition unusable_state (x : rstate) : bool := in_states x status_disconnected_states.

(* monitor over the implementation's trace: x = state before the operation, g = ghost table of
   the values successfully read so far *)
Fixpoint monitor (x : rstate) (g : amap) (os : list op) (obs : list (result * rstate * bool)) : bool :=
  match os, obs with
  | o :: os', (res, x', tag) :: obs' =>
      let tag_ok := Bool.eqb tag (negb (unusable_state x')) in
      let edge_ok := edge_shape_b x o x' in
      let raise_ok :=
        if rw_op o then
          if unusable_state x then match res with RRaise => true | _ => false end
          else match res with RRaise => false | _ => true end
        else true in
      let masked := (* did the decorator answer from its last-known-good table? *)
        match o with
        | Read _ None | ReadBatch _ None => true
        | Read _ _ | ReadBatch _ _ => state_eqb x SReconnect
        | _ => false end in
      let read_ok :=
        if unusable_state x then true else
        match o, res with
        | Read r hw, RVals vs =>
            if masked then list_eqb (option_eqb Z.eqb) vs [aget g r]
            else list_eqb (option_eqb Z.eqb) vs [hw]
        | ReadBatch rs hw, RVals vs =>
            if masked then list_eqb (option_eqb Z.eqb) vs (map (aget g) rs)
            else match hw with Some hv => list_eqb (option_eqb Z.eqb) vs (map Some hv) | None => false end
        | Read _ _, _ | ReadBatch _ _, _ => false
        | _, _ => true
        end in
      let g' :=
        if unusable_state x || masked then g else
        match o with
        | Read r (Some v) => aset g r v
        | ReadBatch rs (Some vs) => set_all g (combine vs rs)
        | _ => g end in
      tag_ok && edge_ok && raise_ok && read_ok && monitor x' g' os' obs'
  | [], [] => true
  | _, _ => false
  end.

Definition holds_b (i : input) (o : output) : bool :=
  let '(obs, _, _) := o in
  monitor (if fst i then SOK else SDisconnected) [] (snd i) obs.
