(* Model of FromEngine.tag_values_changed / _persist_tag_values and TagsInfo.upsert
   (openpectus/aggregator/aggregator.py, models.py) for one engine with an active run whose
   plot log has entries for the tags listed in `entries`. *)
From Coq Require Import ZArith List Bool Arith.
From OP Require Import lib.Obs.
Import ListNotations.
Open Scope Z_scope.

Definition tname := nat.
Record report := { r_name : tname; r_val : Z; r_time : Z }.     (* a TagValue in a message *)
Record row := { w_name : tname; w_val : Z; w_time : Z;           (* PlotLogEntryValue *)
                w_engine_time : Z }.                              (* GHOST: tick_time before it was overwritten *)

Record st := {
  tags : list report;            (* tags_info.map in insertion order *)
  lp : option Z;                 (* run_data.latest_persisted_tick_time *)
  rows : list row;               (* persisted values, oldest first *)
  raised : bool                  (* max([]) raised ValueError *)
}.

Fixpoint upsert (ts : list report) (r : report) : list report :=
  match ts with
  | [] => [r]
  | t :: ts' => if Nat.eqb (r_name t) (r_name r) then r :: ts' else t :: upsert ts' r
  end.

Fixpoint max_time (ts : list report) (acc : Z) : Z :=
  match ts with [] => acc | t :: ts' => max_time ts' (Z.max acc (r_time t)) end.
Definition maxt (ts : list report) : option Z :=
  match ts with [] => None | t :: ts' => Some (max_time ts' (r_time t)) end.

Definition newer (lp0 : option Z) (t : report) : bool :=
  match lp0 with None => true | Some l => l <? r_time t end.

(* interval: None = math.inf *)
Definition persist (interval : option Z) (entries : list tname) (s : st) : st :=
  let latest := match maxt (tags s) with Some m => m | None => 0 end in
  let exceeded := match lp s with
                  | None => true
                  | Some l => match interval with None => false | Some i => i <? latest - l end
                  end in
  if exceeded then
    let to_persist := filter (newer (lp s)) (tags s) in
    match maxt to_persist with
    | None => {| tags := tags s; lp := lp s; rows := rows s; raised := true |}
    | Some h =>
        let new_rows :=
          map (fun t => {| w_name := r_name t; w_val := r_val t; w_time := h; w_engine_time := r_time t |})
              (filter (fun t => existsb (Nat.eqb (r_name t)) entries) to_persist) in
        {| tags := tags s; lp := Some h; rows := rows s ++ new_rows; raised := raised s |}
    end
  else s.

Definition message (interval : option Z) (entries : list tname) (s : st) (msg : list report) : st :=
  if raised s then s else
  persist interval entries
    {| tags := fold_left upsert msg (tags s); lp := lp s; rows := rows s; raised := raised s |}.

Definition init : st := {| tags := []; lp := None; rows := []; raised := false |}.
Definition run_msgs (interval : option Z) (entries : list tname) (msgs : list (list report)) : st :=
  fold_left (message interval entries) msgs init.

(* ---------- correspondence interface ---------- *)
Definition input := (option Z * list tname * list (list (tname * Z * Z)))%type.
Definition output := (list (tname * Z * Z) * bool)%type.     (* rows (name, value, time) ; raised *)

Definition mk_report (t : tname * Z * Z) : report :=
  let '(n, v, tm) := t in {| r_name := n; r_val := v; r_time := tm |}.

Definition run (i : input) : output :=
  let '(interval, entries, msgs) := i in
  let s := run_msgs interval entries (map (map mk_report) msgs) in
  (map (fun w => (w_name w, w_val w, w_time w)) (rows s), raised s).

Definition t3_eqb (a b : tname * Z * Z) : bool :=
  let '(n1, v1, t1) := a in let '(n2, v2, t2) := b in Nat.eqb n1 n2 && (v1 =? v2) && (t1 =? t2).
Definition out_eqb (a b : output) : bool := list_eqb t3_eqb (fst a) (fst b) && Bool.eqb (snd a) (snd b).

(* ---------- monitor on the implementation's rows ---------- *)
(* rows arrive grouped in batches of equal time; (1) batch times strictly increase,
   (2) consecutive batch times differ by more than the interval,
   (3) each row's (name, value) was reported with a time <= the row time,
   (4) a tag appears at most once per batch. *)
Fixpoint batch_times (rs : list (tname * Z * Z)) (last : option Z) : list Z :=
  match rs with
  | [] => []
  | (_, _, t) :: rs' =>
      match last with
      | Some l => if t =? l then batch_times rs' last else t :: batch_times rs' (Some t)
      | None => t :: batch_times rs' (Some t)
      end
  end.
Fixpoint gaps_ok (interval : Z) (ts : list Z) : bool :=
  match ts with
  | a :: ((b :: _) as ts') => (interval <? b - a) && (a <? b) && gaps_ok interval ts'
  | _ => true
  end.
Definition reported (msgs : list (list (tname * Z * Z))) (r : tname * Z * Z) : bool :=
  let '(n, v, t) := r in
  existsb (fun m => let '(n', v', t') := m in Nat.eqb n n' && (v =? v') && (t' <=? t)) (concat msgs).
Fixpoint once_per_batch (rs : list (tname * Z * Z)) : bool :=
  match rs with
  | [] => true
  | (n, _, t) :: rs' =>
      negb (existsb (fun x => let '(n', _, t') := x in Nat.eqb n n' && (t =? t')) rs') && once_per_batch rs'
  end.

(* (5) never older: per tag, the recorded values can be matched to reports (same tag and value, report
   time <= row time) whose engine times never decrease along the rows; the earliest admissible report
   is chosen greedily, which finds a matching whenever one exists *)
Definition min_opt (a : option Z) (b : Z) : option Z :=
  match a with None => Some b | Some x => Some (Z.min x b) end.
Fixpoint never_older (flat : list (tname * Z * Z)) (rs : list (tname * Z * Z)) (lows : list (tname * Z)) : bool :=
  match rs with
  | [] => true
  | (n, v, t) :: rs' =>
      let low := match find (fun x => Nat.eqb (fst x) n) lows with Some x => Some (snd x) | None => None end in
      let cand := fold_left (fun acc m => let '(n', v', t') := m in
                    if Nat.eqb n n' && (v =? v') && (t' <=? t)
                       && match low with Some l => l <=? t' | None => true end
                    then min_opt acc t' else acc) flat None in
      match cand with
      | None => false
      | Some t' => never_older flat rs' ((n, t') :: lows)
      end
  end.

Definition holds_b (i : input) (o : output) : bool :=
  let '(interval, entries, msgs) := i in
  let ts := batch_times (fst o) None in
  never_older (concat msgs) (fst o) [] &&
  gaps_ok (match interval with Some iv => iv | None => 0 end) ts
  && (match interval with None => Nat.leb (length ts) 1 | Some _ => true end)
  && forallb (reported msgs) (fst o)
  && once_per_batch (fst o).
