(* C02 / C03 / C04: monitors on the node states the real interpreter shows after every tick (model/InterpRun.v). *)
From Coq Require Import ZArith List Bool Arith.
From OP Require Import lib.Obs model.Interp model.InterpRun.
Import ListNotations.
Open Scope Z_scope.

Definition input := InterpRun.input.
Definition output := InterpRun.output.
Definition run := InterpRun.run.
Definition out_eqb := InterpRun.out_eqb.

Section Mon.
  Variable p : program.
  Definition vst (v : view) (n : nat) : ns := nth n (v_nodes v) ns0.
  Definition all_nodes : list nat := seq 0 (length p).
  Definition kind_of (n : nat) : kind := n_kind (nd p n).
  (* a scope whose body may run repeatedly: an Alarm (re-arms) or a Macro definition (called again) *)
  Definition is_alarm (n : nat) : bool := match kind_of n with KAlarm | KMacro _ => true | _ => false end.
  Definition is_blank (n : nat) : bool := match kind_of n with KBlank _ => true | _ => false end.
  Definition is_cond (n : nat) : bool := match kind_of n with KAlarm | KWatch => true | _ => false end.
  Definition under_alarm (m : nat) : bool :=
    existsb (fun a => is_alarm a && (Nat.eqb a m || memn m (descendants p a))) all_nodes.
  Definition plain (m : nat) : bool := negb (under_alarm m) && negb (is_blank m).

  (* consecutive sibling pairs (a, b) of every parent *)
  Fixpoint pairs (l : list nat) : list (nat * nat) :=
    match l with a :: ((b :: _) as l') => (a, b) :: pairs l' | _ => [] end.
  Definition sibling_pairs : list (nat * nat) := flat_map (fun q => pairs (n_children (nd p q))) all_nodes.
  (* the visit of a returned without waiting for anything else: what "has completed" means for the next line *)
  Definition passed (v : view) (a : nat) : bool :=
    completed (vst v a) || failed (vst v a)
    || match kind_of a with
       | KCmd | KWatch | KAlarm => started (vst v a)          (* handed to the engine / registered as interrupt *)
       | KWait d => started (vst v a) && (d - 1 <? 0)          (* a Wait shorter than a tick is skipped *)
       | _ => false
       end.

  (* ---- C02 ---- *)
  Definition c02_view (v : view) : bool :=
    forallb (fun ab => let '(a, b) := ab in
                       negb (plain b) || negb (plain a) || negb (started (vst v b)) || (started (vst v a) && passed v a)) sibling_pairs
    && forallb (fun m => match n_parent (nd p m) with
                         | Some q => negb (plain m) || negb (started (vst v m)) || started (vst v q)
                         | None => true end) all_nodes
    && forallb (fun m => match kind_of m with KBlank true => negb (completed (vst v m)) | _ => true end) all_nodes.
  Definition c02_pair (v v' : view) : bool :=
    forallb (fun m => negb (plain m)
                      || ((negb (started (vst v m)) || started (vst v' m)) && (negb (completed (vst v m)) || completed (vst v' m)))) all_nodes.
  Fixpoint c02_walk (prev : option view) (vs : output) : bool :=
    match vs with
    | [] => true
    | v :: vs' => c02_view v && (match prev with Some u => c02_pair u v | None => true end) && c02_walk (Some v) vs'
    end.

  (* ---- C03 ---- *)
  Definition thr_node (m : nat) : bool := n_thr (nd p m) && negb (is_blank m) && negb (under_alarm m).
  (* a threshold still awaited in this tick: not started by this tick *)
  Definition c03_thr (t : tick_in) (u v : view) : bool :=
    forallb (fun m => negb (thr_node m) || negb (memn m (t_thr_wait t)) || started (vst u m) || completed (vst u m)
                      || negb (started (vst v m))) all_nodes.
  (* Wait: the line after a Wait starts no earlier than the wait's duration (minus the 0.1 s the code allows for the final
     tick) after the tick in which the Wait began, and the Wait completes in the first tick at or after that time *)
  Fixpoint c03_wait (now : Z) (ts : list tick_in) (prev : option view) (vs : output)
           (began : list (nat * Z)) (pending : list nat) : bool :=
    (* began: waits whose concrete visit has begun, with that tick's time; pending: waits started in the previous view *)
    match ts, vs with
    | t :: ts', v :: vs' =>
        let now' := now + 5 * t_dt t in
        let began' := began ++ map (fun w => (w, now')) (filter (fun w => negb (existsb (fun x => Nat.eqb (fst x) w) began)) pending) in
        let waits := filter (fun m => match kind_of m with KWait d => negb (under_alarm m) && negb (d - 1 <? 0) | _ => false end) all_nodes in
        let newly := filter (fun w => started (vst v w) && negb (match prev with Some u => started (vst u w) | None => false end)) waits in
        forallb (fun w => match kind_of w, find (fun x => Nat.eqb (fst x) w) began' with
                          | KWait d, Some (_, t0) =>
                              (* completed only once the time is up; and completed as soon as it is *)
                              (negb (completed (vst v w)) || failed (vst v w) || (t0 + d - 1 <=? now'))
                              && (completed (vst v w) || failed (vst v w) || (now' <? t0 + d - 1)
                                  (* a Wait in a Watch / Alarm body is dropped with it when its block is ended *)
                                  || existsb (fun a => is_block p a && block_ended (vst v a)) (ancestors p w))
                          | _, _ => true
                          end) waits
        && c03_wait now' ts' (Some v) vs' began' newly
    | _, _ => true
    end.
  Fixpoint c03_walk (ts : list tick_in) (prev : view) (vs : output) : bool :=
    match ts, vs with
    | t :: ts', v :: vs' => c03_thr t prev v && c03_walk ts' v vs'
    | _, _ => true
    end.

  (* ---- C04 ---- *)
  Definition cond_nodes : list nat := filter is_cond all_nodes.
  Definition c04_pair (t : tick_in) (u v : view) : bool :=
    forallb (fun m =>
               (* activation only in a tick in which the condition evaluated true without an error *)
               (negb (activated (vst v m)) || activated (vst u m) || (memn m (t_cond_true t) && negb (memn m (t_cond_err t))))
               (* a Watch outside alarm bodies never loses its activation and runs its body once: its children only start once *)
               && (is_alarm m || under_alarm m || negb (activated (vst u m)) || activated (vst v m)))
            cond_nodes.
  Definition c04_view (v : view) : bool :=
    forallb (fun m =>
               (* the body runs only after activation *)
               forallb (fun c => negb (started (vst v c)) || activated (vst v m) || under_alarm m) (n_children (nd p m))
               (* not after the enclosing block has ended: nothing of its body starts in an ended block unless it had started before *)
               ) cond_nodes.
  Definition c04_ended (u v : view) : bool :=
    forallb (fun m =>
               let ended_before := existsb (fun a => is_block p a && block_ended (vst u a)) (ancestors p m) in
               negb ended_before
               || forallb (fun c => negb (started (vst v c)) || started (vst u c)) (n_children (nd p m))) cond_nodes.
  Fixpoint c04_walk (ts : list tick_in) (prev : view) (vs : output) : bool :=
    match ts, vs with
    | t :: ts', v :: vs' => c04_pair t prev v && c04_view v && c04_ended prev v && c04_walk ts' v vs'
    | _, _ => true
    end.

  Definition view0 : view := {| v_nodes := repeat ns0 (length p); v_ints := []; v_block := None; v_sched := 0; v_raised := false; v_error := None |}.
End Mon.

(* wf_b: the hypothesis of the order theorems (props/C02.v, props/C04.v), evaluated on every method *)
Definition holds_c02 (i : input) (o : output) : bool := wf_b (fst i) && c02_walk (fst i) None o.
Definition holds_c03 (i : input) (o : output) : bool :=
  c03_walk (fst i) (snd i) (view0 (fst i)) o && c03_wait (fst i) 0 (snd i) None o [] [].
Definition holds_c04 (i : input) (o : output) : bool := wf_b (fst i) && c04_walk (fst i) (snd i) (view0 (fst i)) o.
Definition holds_b := holds_c02.
