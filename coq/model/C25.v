(* Model of Composite_Hardware.read_batch / write_batch (openpectus/engine/composite_hardware.py)
   over fake layers that keep a memory and log their batch calls. *)
From Coq Require Import ZArith List Bool Arith.
From OP Require Import lib.Obs.
Import ListNotations.
Open Scope Z_scope.

Definition reg := nat.
Definition mem := list (reg * Z).                 (* newest write first *)
Definition init_val (r : reg) : Z := - Z.of_nat (S r).

Fixpoint assoc (d : list (reg * Z)) (r : reg) : option Z :=
  match d with
  | [] => None
  | e :: d' => if Nat.eqb (fst e) r then Some (snd e) else assoc d' r
  end.
Definition mget (m : mem) (r : reg) : Z := match assoc m r with Some v => v | None => init_val r end.
Definition write1 (m : mem) (p : Z * reg) : mem := (snd p, fst p) :: m.

Definition layer_of (lay : list nat) (r : reg) : nat := nth r lay 0%nat.

(* dict.fromkeys / first-occurrence order of the layers met in a register list *)
Fixpoint dedup (l : list nat) (seen : list nat) : list nat :=
  match l with
  | [] => []
  | x :: l' => if existsb (Nat.eqb x) seen then dedup l' seen else x :: dedup l' (x :: seen)
  end.
Definition layer_order (lay : list nat) (rs : list reg) : list nat := dedup (map (layer_of lay) rs) [].
Definition regs_of (lay : list nat) (L : nat) (rs : list reg) : list reg :=
  filter (fun r => Nat.eqb (layer_of lay r) L) rs.

(* ---- read_batch ---- *)
Definition comp_read (lay : list nat) (m : mem) (rs : list reg) : list Z :=
  let read_by_register :=
    flat_map (fun L => let rl := regs_of lay L rs in combine rl (map (mget m) rl)) (layer_order lay rs) in
  map (fun r => match assoc (rev read_by_register) r with Some v => v | None => 0 end) rs.

(* ---- write_batch ---- *)
Definition value_dict (pairs : list (Z * reg)) : list (reg * Z) :=      (* last assignment wins *)
  rev (map (fun p => (snd p, fst p)) pairs).
Definition look (pairs : list (Z * reg)) (r : reg) : Z :=
  match assoc (value_dict pairs) r with Some v => v | None => 0 end.

Definition layer_calls (lay : list nat) (vs : list Z) (rs : list reg) : list (nat * list (reg * Z)) :=
  let pairs := combine vs rs in
  let rs' := map snd pairs in
  map (fun L => let rl := regs_of lay L rs' in (L, combine rl (map (look pairs) rl))) (layer_order lay rs').

(* a fake layer applies the writes of one batch in order *)
Definition apply_call (m : mem) (c : nat * list (reg * Z)) : mem :=
  fold_left (fun m e => (fst e, snd e) :: m) (snd c) m.
Definition comp_write (lay : list nat) (m : mem) (vs : list Z) (rs : list reg) : mem :=
  fold_left apply_call (layer_calls lay vs rs) m.

(* ---- operation sequences ---- *)
Inductive op :=
| Read (rs : list reg) | Write (vs : list Z) (rs : list reg)      (* read_batch / write_batch *)
| Read1 (r : reg) | Write1 (v : Z) (r : reg)                      (* Composite_Hardware.read / write *)
| Ext (v : Z) (r : reg).                                          (* the owning layer changes the register itself *)

Definition comp_step (lay : list nat) (m : mem) (o : op) : mem * list Z * list (nat * list (reg * Z)) :=
  match o with
  | Read rs => (m, comp_read lay m rs, [])
  | Write vs rs => (comp_write lay m vs rs, [], layer_calls lay vs rs)
  | Read1 r => (m, [mget m r], [])
  | Write1 v r | Ext v r => (write1 m (v, r), [], [])
  end.

(* specification: every register on its own layer, one at a time *)
Definition spec_step (m : mem) (o : op) : mem * list Z :=
  match o with
  | Read rs => (m, map (mget m) rs)
  | Write vs rs => (fold_left write1 (combine vs rs) m, [])
  | Read1 r => (m, [mget m r])
  | Write1 v r | Ext v r => (write1 m (v, r), [])
  end.

Fixpoint comp_run (lay : list nat) (m : mem) (os : list op)
  : list (list Z) * list (nat * list (reg * Z)) * mem :=
  match os with
  | [] => ([], [], m)
  | o :: os' =>
      let '(m', out, calls) := comp_step lay m o in
      let '(outs, log, mf) := comp_run lay m' os' in (out :: outs, calls ++ log, mf)
  end.
Fixpoint spec_run (m : mem) (os : list op) : list (list Z) * mem :=
  match os with
  | [] => ([], m)
  | o :: os' => let '(m', out) := spec_step m o in
                let '(outs, mf) := spec_run m' os' in (out :: outs, mf)
  end.

Definition dump (n : nat) (m : mem) : list Z := map (mget m) (seq 0 n).

(* ---- correspondence interface ---- *)
Definition input := (list nat * list op)%type.      (* layer of each register; operations *)
Definition output := (list (list Z) * list (nat * list (reg * Z)) * list Z)%type.
  (* per-op read results; layer write-batch calls in order; final memory of every register *)

Definition run (i : input) : output :=
  let '(outs, log, mf) := comp_run (fst i) [] (snd i) in (outs, log, dump (length (fst i)) mf).

Definition zs_eqb := list_eqb Z.eqb.
Definition call_eqb (a b : nat * list (reg * Z)) : bool :=
  Nat.eqb (fst a) (fst b) && list_eqb (pair_eqb Nat.eqb Z.eqb) (snd a) (snd b).
Definition out_eqb (a b : output) : bool :=
  let '(o1, l1, m1) := a in let '(o2, l2, m2) := b in
  list_eqb zs_eqb o1 o2 && list_eqb call_eqb l1 l2 && zs_eqb m1 m2.

(* Monitor on the implementation's output: reads and final memory are those of the one-at-a-time
   specification (the order of values handed to each layer is covered by theorem C25_write_log
   and the correspondence on the call log). *)
Definition holds_b (i : input) (o : output) : bool :=
  let '(outs, _, memf) := o in
  let '(souts, smem) := spec_run [] (snd i) in
  list_eqb zs_eqb outs souts && zs_eqb memf (dump (length (fst i)) smem).
