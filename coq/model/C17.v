(* Model of the second pass of PcodeParser.parse_method (openpectus/lang/model/parser.py):
   matching indentation with node types to nest instructions under their parents.
   Input per line: position.character, node class (whitespace / opens a body / leaf) and the
   indent_error flag set by _parse_line (character % 4 != 0). *)
From Coq Require Import List Bool Arith Lia.
From OP Require Import lib.Obs.
Import ListNotations.

Inductive kind := W | O | L.      (* WhitespaceNode (Blank, Comment) | NodeWithChildren | other *)
Record line := { l_char : nat; l_kind : kind; l_err : bool }.

Definition is_opener (k : kind) := match k with O => true | _ => false end.
Definition is_ws (k : kind) := match k with W => true | _ => false end.

Record st := {
  prev_indent : nat;
  stack : list (nat * nat);     (* chain parent_node, parent_node.parent, ... : (line index, character); [] = ProgramNode *)
  incr : bool                   (* increment_required *)
}.

Definition parent_char (s : st) : nat := match stack s with [] => 0 | (_, c) :: _ => c end.
Definition parent_idx (s : st) : option nat := match stack s with [] => None | (i, _) :: _ => Some i end.

(* for _ in range(outdent_levels): if parent_node.parent is None: error; break  else parent_node = parent_node.parent *)
Fixpoint outdent (levels : nat) (stk : list (nat * nat)) : list (nat * nat) * bool :=
  match levels with
  | 0 => (stk, false)
  | S n => match stk with
           | [] => ([], true)
           | _ :: stk' => outdent n stk'
           end
  end.

(* one iteration of the loop for line number i; returns new state, the node's parent (None = program)
   and its final indent_error flag *)
Definition step (s : st) (i : nat) (ln : line) : st * (option nat * bool) :=
  let c := l_char ln in
  let k := l_kind ln in
  let push (stk : list (nat * nat)) := (i, c) :: stk in
  (* (state after the branch, parent used, flag, node_error) *)
  let '(stk', incr', par, flag, node_error) :=
    if l_err ln then
      (if is_opener k then push (stack s) else stack s, if is_opener k then true else incr s,
       parent_idx s, true, true)
    else if (prev_indent s <? c) && negb (incr s) then
      (if is_opener k then push (stack s) else stack s, is_opener k, parent_idx s, true, true)
    else if c =? prev_indent s then
      (if is_opener k then push (stack s) else stack s, is_opener k, parent_idx s, false, false)
    else if (c =? parent_char s + 4) && negb (match stack s with [] => true | _ => false end) then
      let bad := negb (incr s) && negb (is_ws k) in
      (if is_opener k then push (stack s) else stack s,
       if is_opener k then true else if is_ws k then incr s else false,
       parent_idx s, bad, bad)
    else if prev_indent s + 4 <? c then
      (stack s, incr s, parent_idx s, true, true)
    else if c <? prev_indent s then
      let '(stk1, bad) := if is_ws k then (stack s, false) else outdent ((prev_indent s - c) / 4) (stack s) in
      (if is_opener k then push stk1 else stk1, is_opener k,
       match stk1 with [] => None | (j, _) :: _ => Some j end, bad, bad)
    else
      (stack s, incr s, parent_idx s, false, false) in
  ({| prev_indent := if node_error then prev_indent s else if is_ws k then prev_indent s else c;
      stack := stk'; incr := incr' |},
   (par, flag)).

Fixpoint nest_from (s : st) (i : nat) (ls : list line) : list (option nat * bool) :=
  match ls with
  | [] => []
  | ln :: ls' => let '(s', r) := step s i ln in r :: nest_from s' (S i) ls'
  end.
Definition init : st := {| prev_indent := 0; stack := []; incr := false |}.
Definition nest (ls : list line) : list (option nat * bool) := nest_from init 0 ls.

(* ---------- specification: the off-side rule ---------- *)
(* stack of open bodies (line index, character); an instruction line at character c closes every
   body whose opener is at character >= c and belongs to the innermost remaining one *)
Fixpoint close (c : nat) (stk : list (nat * nat)) : list (nat * nat) :=
  match stk with
  | (j, cj) :: stk' => if c <=? cj then close c stk' else stk
  | [] => []
  end.
Fixpoint spec_from (stk : list (nat * nat)) (i : nat) (ls : list line) : list (option nat) :=
  match ls with
  | [] => []
  | ln :: ls' =>
      match l_kind ln with
      | W => match stk with [] => None | (j, _) :: _ => Some j end :: spec_from stk (S i) ls'
      | k =>
          let stk1 := close (l_char ln) stk in
          match stk1 with [] => None | (j, _) :: _ => Some j end
            :: spec_from (if is_opener k then (i, l_char ln) :: stk1 else stk1) (S i) ls'
      end
  end.
Definition nest_spec (ls : list line) : list (option nat) := spec_from [] 0 ls.

(* ---------- correspondence interface ---------- *)
Definition input := list (nat * nat * bool).     (* character, kind code (0 W, 1 O, 2 L), indent_error from _parse_line *)
Definition output := list (option nat * bool).   (* parent line (None = root), indent_error *)
Definition mk_line (t : nat * nat * bool) : line :=
  let '(c, k, e) := t in {| l_char := c; l_kind := match k with 0 => W | 1 => O | _ => L end; l_err := e |}.
Definition run (i : input) : output := nest (map mk_line i).
Definition out_eqb : output -> output -> bool := list_eqb (pair_eqb (option_eqb Nat.eqb) Bool.eqb).

(* monitor, per line: one entry per line; every parent is an earlier opener; and every unflagged
   instruction line sits exactly one level (4) below its owner -- the nearest preceding instruction
   line with a smaller character, not counting flagged leaves -- which must open a body and be its
   parent; a line with no owner is at character 0 under the root.  (So a line whose indentation fits
   nothing is flagged, never silently re-nested.) *)
Fixpoint owner (c : nat) (prev : list (nat * line * bool)) : option (nat * line) :=
  match prev with
  | [] => None
  | (j, ln, fl) :: prev' =>
      if is_ws (l_kind ln) || (fl && negb (is_opener (l_kind ln))) then owner c prev'
      else if l_char ln <? c then Some (j, ln) else owner c prev'
  end.

Fixpoint lines_ok (prev : list (nat * line * bool)) (k : nat) (ls : list line) (o : output) : bool :=
  match ls, o with
  | ln :: ls', (par, fl) :: o' =>
      (if is_ws (l_kind ln) || fl then true
       else match owner (l_char ln) prev with
            | None => Nat.eqb (l_char ln) 0 && option_eqb Nat.eqb par None
            | Some (j, lj) => is_opener (l_kind lj) && Nat.eqb (l_char lj + 4) (l_char ln)
                              && option_eqb Nat.eqb par (Some j)
            end)
      && lines_ok ((k, ln, fl) :: prev) (S k) ls' o'
  | [], [] => true
  | _, _ => false
  end.

Definition holds_b (i : input) (o : output) : bool :=
  let ls := map mk_line i in
  Nat.eqb (length o) (length ls)
  && forallb (fun t => match fst (snd t) with
                       | None => true
                       | Some p => Nat.ltb p (fst t) && is_opener (l_kind (nth p ls {| l_char := 0; l_kind := L; l_err := false |}))
                       end) (combine (seq 0 (length o)) o)
  && lines_ok [] 0 ls o.
