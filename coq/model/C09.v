(* C09: Unpause restores exactly what the Pause that began the current pause captured.
   Monitor on the events logged by Pause._run / Unpause._run / set_run_id / clear_run_id of the real engine and on the
   engine's stored state after every operation (model/EngRun.v). *)
From Coq Require Import ZArith List Bool Arith.
From OP Require Import lib.Obs model.Eng model.EngRun.
Import ListNotations.
Open Scope Z_scope.

Definition input := EngRun.input.
Definition output := EngRun.output.
Definition run := EngRun.run.
Definition out_eqb := EngRun.out_eqb.

Definition cap := list (nat * Z).
Definition cap_eqb (a b : cap) : bool := list_eqb nz_eqb a b.
Definition ocap_eqb (a b : option cap) : bool := option_eqb cap_eqb a b.

(* the pending capture: None when no pause is in progress in the current run.
   - a run boundary (set_run_id / clear_run_id) forgets it;
   - the Pause that begins a pause sets it to what it captured; a Pause issued while one is pending must keep it;
   - an Unpause must apply exactly it, and clears it.
   Result: None = violated, Some p = fine, p still pending. *)
Fixpoint mon9 (pend : option cap) (evs : list ev) : option (option cap) :=
  match evs with
  | [] => Some pend
  | EStarted _ :: r => mon9 None r
  | EStoppedRun :: r => mon9 None r
  | EPause _ stored :: r =>
      match pend with
      | Some p => if cap_eqb stored p then mon9 pend r else None
      | None => mon9 (Some stored) r
      end
  | EUnpause restored :: r => if ocap_eqb restored pend then mon9 None r else None
  | _ :: r => mon9 pend r
  end.

(* per operation: the events it caused keep the discipline, and afterwards the engine's stored state is the pending
   capture *)
Fixpoint walk (pend : option cap) (vs : output) : bool :=
  match vs with
  | [] => true
  | v :: vs' =>
      match mon9 pend (v_events v) with
      | Some p => ocap_eqb (v_prev v) p && walk p vs'
      | None => false
      end
  end.

Definition holds_b (i : input) (o : output) : bool := walk None o.
