(* C12: cancel and force requests on the interpreter (node level).
   A request names a run-log item; it reaches the node through CommandManager.cancel_instruction / force_instruction ->
   Tracking.mark_cancelled / mark_forced -> Node.cancel() / Node.force(). Requests arrive between ticks. The run model is
   model/Interp.v; the static flags _cancellable / _forcible of every node are part of the input. *)
From Coq Require Import ZArith List Bool Arith.
From OP Require Import lib.Obs model.Interp model.InterpRun.
Import ListNotations.
Open Scope Z_scope.

Record req := { r_cancel : bool;          (* true: cancel, false: force *)
                r_node : nat;
                r_offered : bool }.       (* oracle: the run log offers the item as cancellable / forcible *)
Record tick_req := { q_tick : tick_in; q_reqs : list req }.
Definition flags := list (bool * bool).   (* per node: _cancellable, _forcible *)

Section Req.
  Variable p : program.
  Variable fl : flags.
  Definition is_condnode (n : nat) : bool := match n_kind (nd p n) with KWatch | KAlarm => true | _ => false end.
  (* Node.cancellable / Node.forcible; NodeWithCondition overrides both *)
  Definition cancellable (s : S) (n : nat) : bool :=
    let x := st s n in
    if is_condnode n then negb (cancelled x) && negb (forced x) && negb (activated x)
    else fst (nth n fl (false, false)) && negb (cancelled x) && negb (forced x).
  Definition forcible (s : S) (n : nat) : bool :=
    let x := st s n in
    if is_condnode n then negb (cancelled x) && negb (forced x) && negb (activated x)
    else snd (nth n fl (false, false)) && negb (forced x) && negb (cancelled x).
  Definition set_cf (x : ns) (c f : bool) : ns :=
    {| started := started x; completed := completed x; failed := failed x; child_index := child_index x;
       children_complete := children_complete x; lock_acquired := lock_acquired x; block_ended := block_ended x;
       activated := activated x; interrupt_registered := interrupt_registered x; run_count := run_count x;
       wait_start := wait_start x; cancelled := c; forced := f |}.
  (* the request is carried out, or refused (ValueError) leaving everything as it was *)
  Definition request (s : S) (r : req) : S * bool :=
    let n := r_node r in
    if negb (r_offered r) then (s, false)         (* with the /repo fix: only what the run log offers is carried out *)
    else if r_cancel r
    then (if cancellable s n then (set_ns s n (set_cf (st s n) true (forced (st s n))), true) else (s, false))
    else (if forcible s n then (set_ns s n (set_cf (st s n) (cancelled (st s n)) true), true) else (s, false)).
  Fixpoint requests (s : S) (rs : list req) : S * list bool :=
    match rs with
    | [] => (s, [])
    | r :: rs' => let (s1, a) := request s r in let (s2, l) := requests s1 rs' in (s2, a :: l)
    end.
End Req.

(* ---------- correspondence interface ---------- *)
Definition input := (program * flags * list tick_req)%type.
Record tview := {
  tv_view : view;
  tv_cf : list (bool * bool);             (* per node: cancelled, forced -- after the tick *)
  tv_accepted : list bool;                (* per request of this tick: carried out (true) or refused *)
  tv_offered : list bool }.               (* per request: what the run log offered for the item (observation only) *)
Definition output := list tview.

Fixpoint run_ticks (p : program) (fl : flags) (main : stack) (s : S) (now : Z) (ts : list tick_req) : output :=
  match ts with
  | [] => []
  | q :: ts' =>
      let t := q_tick q in
      let s0 := fold_left (complete_cmd p) (t_complete t) s in
      let (s1, acc) := requests p fl s0 (q_reqs q) in
      let now' := now + 5 * t_dt t in
      let e := {| e_time := now'; e_thr_wait := t_thr_wait t; e_cond_true := t_cond_true t; e_cond_err := t_cond_err t |} in
      match tick p (rounds_of p) (fuel_of p) e main s1 with
      | None => []
      | Some (main', s2, raised) =>
          {| tv_view := {| v_nodes := nodes s2; v_ints := map fst (ints s2); v_block := block_tag s2; v_sched := scheduled s2;
                           v_raised := raised; v_error := last_error s2 |};
             tv_cf := map (fun x => (cancelled x, forced x)) (nodes s2);
             tv_accepted := acc; tv_offered := acc |} :: run_ticks p fl main' s2 now' ts'
      end
  end.
Definition run (i : input) : output :=
  match i with (p, fl, ts) => run_ticks p fl [FVisit 0%nat] (init p) 0 ts end.

Definition bb_eqb (a b : bool * bool) : bool := Bool.eqb (fst a) (fst b) && Bool.eqb (snd a) (snd b).
Definition tview_eqb (a b : tview) : bool :=
  view_eqb (tv_view a) (tv_view b) && list_eqb bb_eqb (tv_cf a) (tv_cf b) && list_eqb Bool.eqb (tv_accepted a) (tv_accepted b).
Definition out_eqb : output -> output -> bool := list_eqb tview_eqb.

(* ---------- the property on the observation ---------- *)
Section Mon.
  Variable p : program.
  Definition vst (v : tview) (n : nat) : ns := nth n (v_nodes (tv_view v)) ns0.
  Definition cf (v : tview) (n : nat) : bool * bool := nth n (tv_cf v) (false, false).
  Definition under_alarm (n : nat) : bool :=
    existsb (fun a => match n_kind (nd p a) with KAlarm | KMacro _ => true | _ => false end) (ancestors p n).
  Definition is_alarm (n : nat) : bool := match n_kind (nd p n) with KAlarm => true | _ => false end.
  Definition watches : list nat :=
    filter (fun n => match n_kind (nd p n) with KWatch | KAlarm => negb (under_alarm n) | _ => false end) (seq 0 (length p)).
  (* a request is carried out exactly when the run log offered it *)
  Definition offered_ok (v : tview) : bool := list_eqb Bool.eqb (tv_accepted v) (tv_offered v).
  (* a Watch (or top-level Alarm) that is cancelled is never activated afterwards, and no line of a cancelled Watch's body
     starts any more, whether or not the Watch had been activated when the cancel was accepted (the code offers no cancel
     after activation; a change that does is caught here): a cancelled Alarm never fires, so it never re-arms either *)
  Definition cancelled_watch_ok (u v : tview) : bool :=
    forallb (fun n => negb (fst (cf u n))
                      || ((activated (vst u n) || negb (activated (vst v n)))
                          (* body lines: for a Watch only -- a Watch / Alarm nested in an Alarm body keeps its own interrupt
                             from an earlier invocation of that body, which starts it independently (C05's known finding) *)
                          && (is_alarm n || forallb (fun c => negb (started (vst v c)) || started (vst u c)) (n_children (nd p n))))) watches.
  Definition in_ended (v : tview) (n : nat) : bool :=
    existsb (fun a => is_block p a && block_ended (vst v a)) (ancestors p n).
  (* effects of the requests of this tick (u: the view before, v: the view after, rest: the following views).
     "Proceeds without waiting": within the next ticks in which its generator runs -- a window of 4 views -- unless the
     run ends, tick raises, or the instruction is dropped because its block ended. Alarm nodes and the bodies of Alarms are
     exempt: a re-arm clears the flags. *)
  Definition req_ok (u v : tview) (rest : output) (q : tick_req) : bool :=
    let win := v :: firstn 3 rest in
    let short := Nat.ltb (length rest) 3 in
    forallb (fun ra : req * bool =>
               let r := fst ra in let a := snd ra in let n := r_node r in
               if under_alarm n || is_alarm n then true
               else if a then
                 if r_cancel r then fst (cf v n)                                    (* cancelled now *)
                 else snd (cf v n)                                                  (* forced now ... *)
                      && match n_kind (nd p n) with
                         | KWait d => (d - 1 <? 0)                    (* a Wait of no duration returns at once, there is nothing to force *)
                                      || negb (started (vst u n)) || completed (vst u n) || short
                                      || existsb (fun w => completed (vst w n) || failed (vst w n) || v_raised (tv_view w) || in_ended w n) win
                         | KWatch => negb (existsb (Nat.eqb n) (v_ints (tv_view u))) || short
                                     || existsb (fun w => activated (vst w n) || v_raised (tv_view w)
                                                          || negb (existsb (Nat.eqb n) (v_ints (tv_view w)))) win
                         | _ => true
                         end
               else bb_eqb (cf v n) (cf u n)                                       (* refused: nothing changed ... *)
                    || existsb (fun ra' : req * bool => snd ra' && Nat.eqb (r_node (fst ra')) n)   (* ... by this request *)
                               (combine (q_reqs q) (tv_accepted v)))
            (combine (q_reqs q) (tv_accepted v)).
  Definition tview0 : tview :=
    {| tv_view := {| v_nodes := repeat ns0 (length p); v_ints := []; v_block := None; v_sched := 0%nat; v_raised := false; v_error := None |};
       tv_cf := repeat (false, false) (length p); tv_accepted := []; tv_offered := [] |}.
  Fixpoint walk (u : tview) (ts : list tick_req) (vs : output) : bool :=
    match ts, vs with
    | q :: ts', v :: vs' => offered_ok v && cancelled_watch_ok u v && req_ok u v vs' q && walk v ts' vs'
    | _, _ => true
    end.
End Mon.
(* wf_b: hypothesis of the run-level theorems (props/C12.v), evaluated on every method *)
Definition holds_b (i : input) (o : output) : bool :=
  match i with (p, fl, ts) => wf_b p && walk p (tview0 p) ts o end.
