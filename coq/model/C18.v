(* Model of PcodeParser._parse_line's use of Grammar.full_line_re and of _parse_tag_operator_value
   (openpectus/lang/model/parser.py): hand-written deterministic recognisers for these regex
   shapes (Python re backtracking is reproduced for them, validated by correspondence); character
   classes, operator lists and units come from gen/Grammar.v. *)
From Coq Require Import ZArith List Bool.
From OP Require Import lib.Obs gen.Grammar.
Import ListNotations.
Open Scope Z_scope.

Definition in_ranges (rs : list (Z * Z)) (c : Z) : bool := existsb (fun r => (fst r <=? c) && (c <=? snd r)) rs.
Definition is_space := in_ranges space_ranges.
Definition is_udigit := in_ranges digit_ranges.          (* \d *)
Definition is_unit_char := in_ranges unit_char_ranges.
Definition is_name_start (c : Z) : bool :=               (* [a-zA-Z_0-9] *)
  ((97 <=? c) && (c <=? 122)) || ((65 <=? c) && (c <=? 90)) || (c =? 95) || ((48 <=? c) && (c <=? 57)).
Definition colon : Z := 58. Definition hash : Z := 35. Definition dot : Z := 46. Definition space : Z := 32.

Fixpoint span (p : Z -> bool) (s : str) : str * str :=
  match s with
  | c :: s' => if p c then let '(a, b) := span p s' in (c :: a, b) else ([], s)
  | [] => ([], [])
  end.
Definition lstrip (s : str) : str := snd (span is_space s).
Definition rstrip (s : str) : str := rev (lstrip (rev s)).
Definition strip (s : str) : str := rstrip (lstrip s).

(* ((?P<threshold>\d+(\.\d+)?)\s)? followed by the start of the instruction name: the group is
   taken iff digits[.digits] is followed by ONE whitespace character and then a name-start char;
   the regex tries the longest digit runs first and a fractional part before none *)
Definition threshold_at (s : str) : option (str * str) :=     (* threshold text, rest after the \s *)
  let '(d1, r1) := span is_udigit s in
  match d1 with
  | [] => None
  | _ =>
      let try_plain :=
        match r1 with
        | w :: n :: rest => if is_space w && is_name_start n then Some (d1, n :: rest) else None
        | _ => None end in
      match r1 with
      | c :: r2 =>
          if c =? dot then
            let '(d2, r3) := span is_udigit r2 in
            match d2 with
            | [] => try_plain
            | _ => match r3 with
                   | w :: n :: rest => if is_space w && is_name_start n then Some (d1 ++ dot :: d2, n :: rest)
                                       else try_plain
                   | _ => try_plain end
            end
          else try_plain
      | [] => None
      end
  end.

Inductive parts :=
| PBlank (character : nat)
| PComment (character : nat)
| PNoMatch
| PInst (indent : nat) (threshold : option str) (name_raw : str) (arg_raw : option str)
        (has_argument : bool) (comment : option str).

Definition not_colon_hash (c : Z) : bool := negb ((c =? colon) || (c =? hash)).
Definition not_hash (c : Z) : bool := negb (c =? hash).

Definition split_line (line : str) : parts :=
  let '(ind, body) := span is_space line in
  match body with
  | [] => PBlank (length line)
  | c0 :: _ =>
      if c0 =? hash then PComment (length ind)
      else
        let '(thr, body1) := match threshold_at body with Some (t, r) => (Some t, r) | None => (None, body) end in
        match body1 with
        | n0 :: _ =>
            if is_name_start n0 then
              let '(name, r1) := span not_colon_hash body1 in
              let '(arg, r2) :=
                match r1 with
                | a :: b :: r =>
                    if (a =? colon) && (b =? space) then
                      let '(ar, r') := span not_hash r in
                      match ar with [] => (None, r1) | _ => (Some ar, r') end
                    else (None, r1)
                | _ => (None, r1) end in
              let comment :=
                let r3 := lstrip r2 in
                match r3 with
                | h :: r4 => if h =? hash then Some (lstrip r4) else None
                | [] => None end in
              let before_hash := fst (span not_hash (strip line)) in
              PInst (length ind) thr name arg (existsb (Z.eqb colon) before_hash) comment
            else PNoMatch
        | [] => PNoMatch
        end
  end.

(* ---------- tag operator value ---------- *)
Fixpoint is_prefix (p s : str) : bool :=
  match p, s with
  | [], _ => true
  | a :: p', b :: s' => (a =? b) && is_prefix p' s'
  | _ :: _, [] => false
  end.
Fixpoint contains (needle s : str) : bool :=
  is_prefix needle s || match s with [] => false | _ :: s' => contains needle s' end.
(* str.split(op): pieces between non-overlapping occurrences, scanning left to right *)
Fixpoint split_on (fuel : nat) (op s cur : str) : list str :=
  match fuel with
  | O => [rev cur ++ s]
  | S f =>
      match s with
      | [] => [rev cur]
      | c :: s' =>
          if is_prefix op s then rev cur :: split_on f op (skipn (length op) s) []
          else split_on f op s' (c :: cur)
      end
  end.

(* candidate float prefixes in the exploration order of the float regex (sign, digits with an
   optional fraction or a bare fraction, optional exponent) -- greedy, longest first *)
Fixpoint prefixes_desc (s : str) : list (str * str) :=      (* non-empty prefixes of the digit run, longest first *)
  match s with
  | [] => []
  | c :: s' => if is_udigit c
               then map (fun p => (c :: fst p, snd p)) (prefixes_desc s') ++ [([c], s')]
               else []
  end.
Definition prefixes_desc0 (s : str) : list (str * str) := prefixes_desc s ++ [([], s)].   (* digit run that may be empty *)

Definition with_exponent (m : str) (rest : str) : list (str * str) :=
  (match rest with
   | e :: r1 =>
       if (e =? 101) || (e =? 69) then
         let '(sg, r2) := match r1 with
                          | c :: r' => if (c =? 43) || (c =? 45) then ([c], r') else ([], r1)
                          | [] => ([], r1) end in
         map (fun p => (m ++ e :: sg ++ fst p, snd p)) (prefixes_desc r2)
       else []
   | [] => [] end) ++ [(m, rest)].

Definition float_cands (s : str) : list (str * str) :=
  let '(sg, s1) := match s with
                   | c :: r => if (c =? 43) || (c =? 45) then ([c], r) else ([], s)
                   | [] => ([], s) end in
  let mantissas :=
    flat_map (fun p =>                      (* digits then optional fraction *)
      let '(d, r) := p in
      (match r with
       | c :: r1 => if c =? dot then map (fun q => (d ++ dot :: fst q, snd q)) (prefixes_desc0 r1) else []
       | [] => [] end) ++ [(d, r)]) (prefixes_desc s1)
    ++ (match s1 with
        | c :: r1 => if c =? dot then map (fun q => (dot :: fst q, snd q)) (prefixes_desc r1) else []
        | [] => [] end) in
  let all := flat_map (fun p => with_exponent (sg ++ fst p) (snd p)) mantissas in
  (* a sign that is not followed by a number: the regex can also match without consuming... no:
     [+-]? is followed by a mandatory mantissa, so no sign-less fallback when the sign is present
     at the start of the string under ^ *)
  all.

Definition all_p (p : Z -> bool) (s : str) : bool := forallb p s.

Record tov := { t_op : str; t_lhs : str; t_rhs : str; t_name : option str; t_value : option str;
                t_unit : option str; t_error : bool }.

Definition parse_rhs (rhs : str) : option str * option str :=     (* tag_value, tag_unit *)
  (* a right-hand side that is a number as a whole has no unit (its exponent is not read as one);
     otherwise float + unit; otherwise a string value *)
  match find (fun p => all_p is_space (snd p)) (float_cands rhs) with
  | Some (f, _) => (Some f, None)
  | None =>
      match find (fun p => let r := lstrip (snd p) in
                           match r with [] => false | _ => all_p is_unit_char r end) (float_cands rhs) with
      | Some (f, r) => (Some f, Some (lstrip r))
      | None => (Some rhs, None)
      end
  end.

Definition parse_tov (operators : list str) (part : str) : tov :=
  match find (fun op => contains op part) operators with
  | None => {| t_op := []; t_lhs := part; t_rhs := []; t_name := Some (strip part); t_value := None;
               t_unit := None; t_error := true |}
  | Some op =>
      match split_on (S (length part)) op part [] with
      | [lhs; rhs] =>
          let l := strip lhs in let r := strip rhs in
          match l with
          | [] => {| t_op := op; t_lhs := l; t_rhs := r; t_name := None; t_value := None; t_unit := None; t_error := true |}
          | _ =>
              match r with
              | [] => {| t_op := op; t_lhs := l; t_rhs := r; t_name := Some l; t_value := None; t_unit := None; t_error := true |}
              | _ => let '(v, u) := parse_rhs r in
                     {| t_op := op; t_lhs := l; t_rhs := r; t_name := Some l; t_value := v; t_unit := u; t_error := false |}
              end
          end
      | _ => {| t_op := op; t_lhs := []; t_rhs := []; t_name := None; t_value := None; t_unit := None; t_error := true |}
      end
  end.

(* ---------- rendering (for the round-trip theorems) ---------- *)
Definition render_line (indent : nat) (thr : option str) (name : str) (arg : option str) (comment : option str) : str :=
  repeat space indent
  ++ match thr with Some t => t ++ [space] | None => [] end
  ++ name
  ++ match arg with Some a => colon :: space :: a | None => [] end
  ++ match comment with Some c => space :: hash :: space :: c | None => [] end.

Definition render_tov (tag op value : str) (unit : option str) : str :=
  tag ++ [space] ++ op ++ [space] ++ value ++ match unit with Some u => space :: u | None => [] end.

(* ---------- correspondence interface ---------- *)
Inductive query :=
| QLine (line : str)                                     (* arbitrary line *)
| QTov (assignment : bool) (part : str)                  (* arbitrary Watch/Alarm/Simulate argument *)
| QLineWF (indent : nat) (thr : option str) (name : str) (arg : option str) (comment : option str)
| QTovWF (assignment : bool) (tag op value : str) (unit : option str).
Inductive answer := ALine (p : parts) | ATov (t : tov).
Definition input := query.
Definition output := answer.
Definition ops_of (a : bool) := if a then assignment_operators else condition_operators.
Definition run (q : input) : output :=
  match q with
  | QLine l => ALine (split_line l)
  | QTov a p => ATov (parse_tov (ops_of a) p)
  | QLineWF i t n a c => ALine (split_line (render_line i t n a c))
  | QTovWF a tag op v u => ATov (parse_tov (ops_of a) (render_tov tag op v u))
  end.

Definition ostr_eqb := option_eqb str_eqb.
Definition parts_eqb (a b : parts) : bool :=
  match a, b with
  | PBlank x, PBlank y | PComment x, PComment y => Nat.eqb x y
  | PNoMatch, PNoMatch => true
  | PInst i1 t1 n1 a1 h1 c1, PInst i2 t2 n2 a2 h2 c2 =>
      Nat.eqb i1 i2 && ostr_eqb t1 t2 && str_eqb n1 n2 && ostr_eqb a1 a2 && Bool.eqb h1 h2 && ostr_eqb c1 c2
  | _, _ => false
  end.
Definition tov_eqb (a b : tov) : bool :=
  str_eqb (t_op a) (t_op b) && str_eqb (t_lhs a) (t_lhs b) && str_eqb (t_rhs a) (t_rhs b)
  && ostr_eqb (t_name a) (t_name b) && ostr_eqb (t_value a) (t_value b) && ostr_eqb (t_unit a) (t_unit b)
  && Bool.eqb (t_error a) (t_error b).
Definition out_eqb (a b : output) : bool :=
  match a, b with
  | ALine x, ALine y => parts_eqb x y
  | ATov x, ATov y => tov_eqb x y
  | _, _ => false
  end.

(* monitor: for lines and conditions rendered from well-formed parts, the implementation must
   recover exactly those parts *)
Definition expected_line (i : nat) (t : option str) (n : str) (a : option str) (c : option str) : parts :=
  PInst i t (match a, c with None, Some _ => n ++ [space] | _, _ => n end)
        (match a, c with Some x, Some _ => Some (x ++ [space]) | _, _ => a end)
        (match a with Some _ => true | None => false end) c.
Definition expected_tov (tag op v : str) (u : option str) : tov :=
  {| t_op := op; t_lhs := tag; t_rhs := v ++ match u with Some x => space :: x | None => [] end;
     t_name := Some tag; t_value := Some v; t_unit := u; t_error := false |}.
Definition holds_b (q : input) (o : output) : bool :=
  match q, o with
  | QLine _, ALine _ => true
  | QTov _ _, ATov _ => true
  | QLineWF i t n a c, ALine p => parts_eqb p (expected_line i t n a c)
  | QTovWF _ tag op v u, ATov t => tov_eqb t (expected_tov tag op v u)
  | _, _ => false
  end.
