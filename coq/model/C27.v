(* C27: engine messages survive disconnects. Model of EngineRunner's recovery state machine
   (openpectus/engine/engine_runner.py: _post_async, _buffer_message, _set_state and its hooks, _tick, _connect_async,
   _send_buffered_batch) with a scripted network: every connect and every transmission takes its outcome from the
   operation's result list (default: success). The two periodic producer loops are part of the operation alphabet. *)
From Coq Require Import ZArith List Bool Arith.
From OP Require Import lib.Obs.
Import ListNotations.
Open Scope Z_scope.

Inductive rstate := Started | Connected | Failed | Disconnected | Reconnecting | CatchingUp | Reconnected | Stopped.
Inductive res := Ok | Lost | Dup.      (* delivered; not delivered + network error; delivered but the sender sees an error *)
Inductive task := TNone | TBuf | TSteady.
Inductive mkind := KData | KStop | KOther.
Record msg := { label : Z; mseq : option nat; mrun : Z; mkd : mkind }.

Record R := {
  st : rstate; buf : list msg; seqn : nat; tk : task; eid : bool;
  out : list (Z * nat);                  (* transmissions that reached the aggregator during the current operation *)
  crashed : bool }.                      (* a ProtocolException escaped (send without an engine id) *)

Definition rstate_eqb (a b : rstate) : bool :=
  match a, b with
  | Started, Started | Connected, Connected | Failed, Failed | Disconnected, Disconnected | Reconnecting, Reconnecting
  | CatchingUp, CatchingUp | Reconnected, Reconnected | Stopped, Stopped => true
  | _, _ => false
  end.

Definition next (rs : list res) : res * list res := match rs with [] => (Ok, []) | r :: rs' => (r, rs') end.

(* dispatcher.assign_sequence_number: only once per message *)
Definition stamp (r : R) (m : msg) : R * msg :=
  match mseq m with
  | Some _ => (r, m)
  | None => ({| st := st r; buf := buf r; seqn := S (seqn r); tk := tk r; eid := eid r; out := out r; crashed := crashed r |},
             {| label := label m; mseq := Some (S (seqn r)); mrun := mrun m; mkd := mkd m |})
  end.

Definition buffer (r : R) (m : msg) : R :=
  let '(r1, m1) := stamp r m in
  {| st := st r1; buf := buf r1 ++ [m1]; seqn := seqn r1; tk := tk r1; eid := eid r1; out := out r1; crashed := crashed r1 |}.

(* _set_state("Failed"): the buffer task survives, any other state task is cancelled; the dispatcher forgets the engine id;
   _on_failed starts the buffer task unless a task is allocated *)
Definition set_failed (r : R) : R :=
  let t1 := match tk r with TBuf => TBuf | _ => TNone end in
  {| st := Failed; buf := buf r; seqn := seqn r; tk := (match t1 with TNone => TBuf | t => t end); eid := false;
     out := out r; crashed := crashed r |}.

(* dispatcher.send_async; returns whether a ProtocolNetworkException was raised *)
Definition send (r : R) (m : msg) (rs : list res) : R * msg * bool * list res :=
  if negb (eid r) then
    ({| st := st r; buf := buf r; seqn := seqn r; tk := tk r; eid := eid r; out := out r; crashed := true |}, m, false, rs)
  else
    let '(r1, m1) := stamp r m in
    let '(x, rs') := next rs in
    let sq := match mseq m1 with Some k => k | None => O end in
    let r2 := match x with
              | Lost => r1
              | _ => {| st := st r1; buf := buf r1; seqn := seqn r1; tk := tk r1; eid := eid r1;
                        out := out r1 ++ [(label m1, sq)]; crashed := crashed r1 |}
              end in
    (r2, m1, match x with Ok => false | _ => true end, rs').

Definition post (r : R) (m : msg) (rs : list res) : R * list res :=
  match st r with
  | Stopped | Started => (r, rs)                               (* "System is down" / invalid state: the message is dropped *)
  | Connected | Reconnected | CatchingUp =>
      let '(r1, m1, failed, rs') := send r m rs in
      if failed then (buffer (set_failed r1) m1, rs') else (r1, rs')
  | Failed | Disconnected | Reconnecting => (buffer r m, rs)
  end.

Definition fresh (l : Z) (k : mkind) : msg := {| label := l; mseq := None; mrun := -1; mkd := k |}.

(* _set_state for the other targets *)
Definition keep_task (s : rstate) (t : task) : task :=
  match t, s with
  | TBuf, (Failed | Disconnected | Reconnecting | CatchingUp) => TBuf
  | _, _ => TNone
  end.
Definition with_state (r : R) (s : rstate) : R :=
  {| st := s; buf := buf r; seqn := seqn r; tk := keep_task s (tk r); eid := eid r; out := out r; crashed := crashed r |}.
Definition start_steady (r : R) : R :=
  match tk r with
  | TNone => {| st := st r; buf := buf r; seqn := seqn r; tk := TSteady; eid := eid r; out := out r; crashed := crashed r |}
  | _ => r                                                       (* "Attempting to start send_messages task while other task is allocated" *)
  end.
Definition set_state (r : R) (s : rstate) (rs : list res) : R * list res :=
  match s with
  | Failed => (set_failed r, rs)
  | Connected => let '(r1, rs1) := post (with_state r Connected) (fresh (-1) KOther) rs in (start_steady r1, rs1)
  | CatchingUp => post (with_state r CatchingUp) (fresh (-1) KOther) rs
  | Reconnected => (start_steady (with_state r Reconnected), rs)
  | _ => (with_state r s, rs)
  end.

Definition connect (r : R) (rs : list res) : R * list res :=
  let '(x, rs') := next rs in
  match x with
  | Ok =>
      let r1 := {| st := st r; buf := buf r; seqn := seqn r; tk := tk r; eid := true; out := out r; crashed := crashed r |} in
      match st r with
      | Started => set_state r1 Connected rs'
      | Disconnected => set_state r1 Reconnecting rs'
      | _ => (r1, rs')
      end
  | _ => set_state r Failed rs'
  end.

Fixpoint post_all (r : R) (ms : list msg) (rs : list res) : R * list res :=
  match ms with
  | [] => (r, rs)
  | m :: ms' => let '(r1, rs1) := post r m rs in post_all r1 ms' rs1
  end.

(* _send_buffered_batch *)
Definition batch (r : R) (rs : list res) : R * list res :=
  let '(r1, rs1) := post r (fresh (-2) KOther) rs in
  match buf r1 with
  | [] => set_state r1 Reconnected rs1
  | ms => post_all {| st := st r1; buf := []; seqn := seqn r1; tk := tk r1; eid := eid r1; out := out r1; crashed := crashed r1 |} ms rs1
  end.

Definition tick (r : R) (rs : list res) : R * list res :=
  match st r with
  | Started | Disconnected => connect r rs
  | Failed => set_state r Disconnected rs
  | Reconnecting => set_state r CatchingUp rs
  | CatchingUp => batch r rs
  | _ => (r, rs)
  end.

Inductive op :=
| OPost (l : Z) (run : Z) (k : mkind) (rs : list res)      (* an engine event / the steady-state loop posts a message *)
| OBuf (l : Z) (run : Z) (k : mkind)                        (* the buffer_messages loop buffers a message (if it is alive) *)
| OTick (rs : list res).

Definition clear_out (r : R) : R :=
  {| st := st r; buf := buf r; seqn := seqn r; tk := tk r; eid := eid r; out := []; crashed := false |}.
Definition step (r : R) (o : op) : R :=
  let r0 := clear_out r in
  match o with
  | OPost l run k rs => fst (post r0 {| label := l; mseq := None; mrun := run; mkd := k |} rs)
  | OBuf l run k => match tk r0 with TBuf => buffer r0 {| label := l; mseq := None; mrun := run; mkd := k |} | _ => r0 end
  | OTick rs => fst (tick r0 rs)
  end.

Definition init : R := {| st := Started; buf := []; seqn := 1; tk := TNone; eid := false; out := []; crashed := false |}.

(* ---------- observation ---------- *)
Record view := { v_st : rstate; v_buf : list (Z * nat); v_out : list (Z * nat); v_task : task; v_seq : nat; v_crash : bool }.
Definition view_of (r : R) : view :=
  {| v_st := st r; v_buf := map (fun m => (label m, match mseq m with Some k => k | None => O end)) (buf r);
     v_out := out r; v_task := tk r; v_seq := seqn r; v_crash := crashed r |}.
Definition input := list op.
Definition output := list view.
Fixpoint run_from (r : R) (os : list op) : output :=
  match os with [] => [] | o :: os' => let r' := step r o in view_of r' :: run_from r' os' end.
Definition run (i : input) : output := run_from init i.

Definition task_eqb (a b : task) : bool := match a, b with TNone, TNone | TBuf, TBuf | TSteady, TSteady => true | _, _ => false end.
Definition zn_eqb (a b : Z * nat) : bool := (fst a =? fst b) && Nat.eqb (snd a) (snd b).
Definition view_eqb (a b : view) : bool :=
  rstate_eqb (v_st a) (v_st b) && list_eqb zn_eqb (v_buf a) (v_buf b) && list_eqb zn_eqb (v_out a) (v_out b)
  && task_eqb (v_task a) (v_task b) && Nat.eqb (v_seq a) (v_seq b) && Bool.eqb (v_crash a) (v_crash b).
Definition out_eqb : output -> output -> bool := list_eqb view_eqb.

(* ---------- the property, on the observations ---------- *)
Definition memz (x : Z) (l : list Z) : bool := existsb (Z.eqb x) l.
Definition has_dup_res (o : op) : bool :=
  match o with OPost _ _ _ rs | OTick rs => existsb (fun x => match x with Dup => true | _ => false end) rs | _ => false end.

Record mon := {
  acc : list (Z * Z * mkind);     (* accepted messages, oldest first: label, run, kind *)
  dlv : list (Z * nat) }.         (* everything delivered so far, oldest first *)

(* was the message accepted by this operation? (the runner was up, or the buffer loop was alive) *)
Definition accepted (prev : view) (o : op) : option (Z * Z * mkind) :=
  match o with
  | OPost l run k _ => match v_st prev with Started | Stopped => None | _ => Some (l, run, k) end
  | OBuf l run k => match v_task prev with TBuf => Some (l, run, k) | _ => None end
  | OTick _ => None
  end.

Definition labels_of (l : list (Z * nat)) : list Z := map fst l.
Fixpoint count_z (x : Z) (l : list Z) : nat := match l with [] => O | y :: l' => (if x =? y then 1 else 0) + count_z x l' end.
Fixpoint seq_of (x : Z) (l : list (Z * nat)) : option nat :=
  match l with [] => None | (y, k) :: l' => if x =? y then Some k else seq_of x l' end.

(* order clause: when the stop notification of a run is delivered, every data message of that run accepted before it
   has been delivered *)
Fixpoint before_stop (a : list (Z * Z * mkind)) (stop : Z) : list (Z * Z * mkind) :=
  match a with [] => [] | (l, r, k) :: a' => if l =? stop then [] else (l, r, k) :: before_stop a' stop end.
Definition order_ok (a : list (Z * Z * mkind)) (d : list (Z * nat)) : bool :=
  forallb (fun s => match s with
                    | (l, r, KStop) =>
                        if memz l (labels_of d) then
                          (* position of the first delivery of the stop *)
                          let fix upto (d : list (Z * nat)) := match d with [] => [] | (y, k) :: d' => if y =? l then [] else y :: upto d' end in
                          forallb (fun x => match x with (l', r', KData) => negb (r' =? r) || memz l' (upto d) | _ => true end)
                                  (before_stop a l)
                        else true
                    | _ => true
                    end) a.

Fixpoint walk (strict_order : bool) (nodup : bool) (prev : view) (m : mon) (os : list op) (vs : output) : bool :=
  match os, vs with
  | [], [] => true
  | o :: os', v :: vs' =>
      let a' := match accepted prev o with Some x => acc m ++ [x] | None => acc m end in
      let d' := dlv m ++ filter (fun p => 0 <=? fst p) (v_out v) in      (* uod_info / method messages (labels < 0) are not tracked *)
      negb (v_crash v)
      (* nothing stranded once caught up *)
      && (match v_st v with Connected | Reconnected => match v_buf v with [] => true | _ => false end | _ => true end)
      (* no loss: accepted = delivered or still buffered *)
      && forallb (fun x => memz (fst (fst x)) (labels_of d') || memz (fst (fst x)) (labels_of (v_buf v))) a'
      (* one sequence number per message, across resends and while buffered *)
      && forallb (fun p => match seq_of (fst p) d' with Some k => Nat.eqb k (snd p) | None => true end) (d' ++ v_buf v)
      (* distinct messages carry distinct sequence numbers *)
      && forallb (fun p => forallb (fun q => negb (Nat.eqb (snd p) (snd q)) || (fst p =? fst q)) (d' ++ v_buf v)) (d' ++ v_buf v)
      (* without delivered-but-failed transmissions nothing is delivered twice *)
      && (if nodup then forallb (fun x => Nat.leb (count_z x (labels_of d')) 1) (labels_of d') else true)
      && (if strict_order then order_ok a' d' else true)
      && walk strict_order nodup v {| acc := a'; dlv := d' |} os' vs'
  | _, _ => false
  end.

Definition holds_with (strict_order : bool) (i : input) (o : output) : bool :=
  walk strict_order (negb (existsb has_dup_res i)) (view_of init) {| acc := []; dlv := [] |} i o.
Definition holds_b (i : input) (o : output) : bool := holds_with true i o.
