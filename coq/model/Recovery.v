(* Model of ErrorRecoveryDecorator (openpectus/engine/hardware_recovery.py) over a scripted
   hardware: every call the decorator makes on the decorated layer consumes one outcome given
   with the operation. Constants and state sets come from gen/RecoveryConst.v. *)
From Coq Require Import ZArith List Bool Arith.
From OP Require Import lib.Obs gen.RecoveryConst.
Import ListNotations.
Open Scope Z_scope.

Definition reg := nat.
Definition amap := list (reg * Z).          (* dict in insertion order *)

Fixpoint aget (m : amap) (r : reg) : option Z :=
  match m with [] => None | e :: m' => if Nat.eqb (fst e) r then Some (snd e) else aget m' r end.
Fixpoint aset (m : amap) (r : reg) (v : Z) : amap :=      (* update in place, else append *)
  match m with
  | [] => [(r, v)]
  | e :: m' => if Nat.eqb (fst e) r then (r, v) :: m' else e :: aset m' r v
  end.
Definition adel (m : amap) (r : reg) : amap := filter (fun e => negb (Nat.eqb (fst e) r)) m.

Definition state_eqb (a b : rstate) : bool :=
  match a, b with
  | SDisconnected, SDisconnected | SOK, SOK | SIssue, SIssue | SReconnect, SReconnect | SError, SError => true
  | _, _ => false
  end.
Definition in_states (s : rstate) (l : list rstate) : bool := existsb (state_eqb s) l.

Record st := {
  state : rstate;
  lkg : amap;                 (* last_known_good_reads *)
  pending : amap;             (* pending_writes *)
  last_ok : amap;             (* last_success_writes *)
  t_last_success : Z;         (* last_success_read_write *)
  t_reconnect : Z;            (* last_state_reconnect_time *)
  rtick : Z;                  (* reconnect_tick *)
  tag_connected : bool;       (* Connection Status tag = "Connected" *)
  now : Z;                    (* time.time() *)
  mem : amap;                 (* memory of the scripted hardware *)
  hwlog : list (reg * Z);     (* every value handed to the hardware that it accepted, oldest first *)
  commanded : amap            (* GHOST: last value passed to a write that did not raise *)
}.

Definition upd_state (s : st) (x : rstate) : st :=
  {| state := x; lkg := lkg s; pending := pending s; last_ok := last_ok s;
     t_last_success := t_last_success s; t_reconnect := t_reconnect s; rtick := rtick s;
     tag_connected := negb (in_states x status_disconnected_states);   (* every on_* callback updates the tag *)
     now := now s; mem := mem s; hwlog := hwlog s; commanded := commanded s |}.

Definition init (connected : bool) : st :=
  {| state := if connected then SOK else SDisconnected; lkg := []; pending := []; last_ok := [];
     t_last_success := 0; t_reconnect := 0; rtick := reconnect_tick_init;
     tag_connected := connected; now := 0; mem := []; hwlog := []; commanded := [] |}.

(* ---- success_read / success_write / error_read_write ---- *)
Definition set_last_success (s : st) : st :=
  {| state := state s; lkg := lkg s; pending := pending s; last_ok := last_ok s;
     t_last_success := now s; t_reconnect := t_reconnect s; rtick := rtick s;
     tag_connected := tag_connected s; now := now s; mem := mem s; hwlog := hwlog s; commanded := commanded s |}.

Definition success_common (s : st) : st :=
  let s := set_last_success s in
  match state s with SIssue => upd_state s SOK | _ => s end.

Definition with_last_ok (s : st) (m : amap) : st :=
  {| state := state s; lkg := lkg s; pending := pending s; last_ok := m;
     t_last_success := t_last_success s; t_reconnect := t_reconnect s; rtick := rtick s;
     tag_connected := tag_connected s; now := now s; mem := mem s; hwlog := hwlog s; commanded := commanded s |}.
Definition with_pending (s : st) (m : amap) : st :=
  {| state := state s; lkg := lkg s; pending := m; last_ok := last_ok s;
     t_last_success := t_last_success s; t_reconnect := t_reconnect s; rtick := rtick s;
     tag_connected := tag_connected s; now := now s; mem := mem s; hwlog := hwlog s; commanded := commanded s |}.
Definition with_lkg (s : st) (m : amap) : st :=
  {| state := state s; lkg := m; pending := pending s; last_ok := last_ok s;
     t_last_success := t_last_success s; t_reconnect := t_reconnect s; rtick := rtick s;
     tag_connected := tag_connected s; now := now s; mem := mem s; hwlog := hwlog s; commanded := commanded s |}.
Definition with_commanded (s : st) (m : amap) : st :=
  {| state := state s; lkg := lkg s; pending := pending s; last_ok := last_ok s;
     t_last_success := t_last_success s; t_reconnect := t_reconnect s; rtick := rtick s;
     tag_connected := tag_connected s; now := now s; mem := mem s; hwlog := hwlog s; commanded := m |}.
Definition hw_write (s : st) (r : reg) (v : Z) : st :=
  {| state := state s; lkg := lkg s; pending := pending s; last_ok := last_ok s;
     t_last_success := t_last_success s; t_reconnect := t_reconnect s; rtick := rtick s;
     tag_connected := tag_connected s; now := now s; mem := aset (mem s) r v;
     hwlog := hwlog s ++ [(r, v)]; commanded := commanded s |}.

Definition error_read_write (s : st) : st :=
  let s := with_last_ok s [] in
  match state s with
  | SOK => upd_state s SIssue
  | SIssue =>
      if t_last_success s + reconnect_timeout_seconds <? now s
      then (* on_reconnect: tag, then last_state_reconnect_time := now *)
        let s' := upd_state s SReconnect in
        {| state := state s'; lkg := lkg s'; pending := pending s'; last_ok := last_ok s';
           t_last_success := t_last_success s'; t_reconnect := now s'; rtick := rtick s';
           tag_connected := tag_connected s'; now := now s'; mem := mem s'; hwlog := hwlog s';
           commanded := commanded s' |}
      else s
  | SReconnect =>
      if t_reconnect s + error_timeout_seconds <? now s then upd_state s SError else s
  | _ => s
  end.

(* filter_write_values: keep (v, r) unless r was last successfully written with the same value *)
Definition filter_writes (s : st) (ps : list (Z * reg)) : list (Z * reg) :=
  if only_write_modified_values then
    filter (fun p => match aget (last_ok s) (snd p) with
                     | None => true
                     | Some old => negb (fst p =? old) end) ps
  else ps.

Definition set_all (m : amap) (ps : list (Z * reg)) : amap :=
  fold_left (fun m p => aset m (snd p) (fst p)) ps m.

(* _write_pending_values(except_names): the loop runs over a snapshot of the pending items in
   insertion order. A register just written is superseded: its buffered value is dropped (the
   repair recorded for C24). Every other item is written with decorated.write -- one hardware
   outcome each, failures swallowed -- and removed on success. Dropping the superseded entries
   commutes with the writes of the others, so the model drops them first. *)
Fixpoint flush_items (s : st) (items : list (reg * Z)) (oks : list bool) : st :=
  match items with
  | [] => s
  | (r, v) :: items' =>
      match oks with
      | true :: oks' => flush_items (with_pending (hw_write s r v) (adel (pending s) r)) items' oks'
      | false :: oks' => flush_items s items' oks'
      | [] => flush_items s items' []        (* script exhausted: treated as failure *)
      end
  end.
Definition drop_keys (m : amap) (except : list reg) : amap :=
  filter (fun e => negb (existsb (Nat.eqb (fst e)) except)) m.
Definition flush (s : st) (except : list reg) (oks : list bool) : st :=
  match state s with
  | SOK => let p := drop_keys (pending s) except in flush_items (with_pending s p) p oks
  | _ => s
  end.

(* ---- operations ---- *)
Inductive op :=
| Read (r : reg) (hw : option Z)                          (* hw: value returned, None = HardwareLayerException *)
| ReadBatch (rs : list reg) (hw : option (list Z))
| Write (v : Z) (r : reg) (hw_ok : bool) (flush_oks : list bool)
| WriteBatch (ps : list (Z * reg)) (hw_ok : bool) (flush_oks : list bool)
| Tick (reconnect_ok : bool)
| Connect (hw_ok : bool)
| Advance (dt : Z).

Inductive result :=
| RRaise                                   (* HardwareLayerException out of the decorator *)
| RVals (vs : list (option Z))             (* read results; None = Python None *)
| RDone.

Definition unusable (s : st) : bool := in_states (state s) status_disconnected_states.
  (* read/write raise in [Disconnected, Error]; the code spells the same two states out *)

Definition lkg_values (s : st) (rs : list reg) : list (option Z) := map (aget (lkg s)) rs.

Definition is_backoff_tick (t : Z) : bool :=
  existsb (Z.eqb t) reconnect_backoff_ticks
  || (let last := List.last reconnect_backoff_ticks 0 in (last <? t) && (t mod last =? 0)).

(* the try-branch of write / write_batch (state OK or Issue) *)
Definition write_through (s : st) (orig : list (Z * reg)) (hw_ok : bool) (flush_oks : list bool)
  (single : bool) : st :=
  let ps := filter_writes s orig in
  if single && (match ps with [] => true | _ => false end) then s   (* write(): not modified *)
  else if hw_ok then
    let s := fold_left (fun s p => hw_write s (snd p) (fst p)) ps s in
    let s := with_last_ok s (set_all (last_ok s) ps) in
    let s := success_common s in
    flush s (map snd ps) flush_oks
  else
    let s := error_read_write s in
    match state s with
    | SError => s
    | _ => with_pending s (set_all (pending s) ps)
    end.

(* state Reconnect: note an error, buffer everything *)
Definition write_buffer (s : st) (orig : list (Z * reg)) : st :=
  let s := error_read_write s in with_pending s (set_all (pending s) orig).

Definition do_write (s : st) (orig : list (Z * reg)) (hw_ok : bool) (flush_oks : list bool)
  (single : bool) : st * result :=
  if unusable s then (s, RRaise)
  else
    let s := with_commanded s (set_all (commanded s) orig) in
    match state s with
    | SReconnect => (write_buffer s orig, RDone)
    | _ => (write_through s orig hw_ok flush_oks single, RDone)
    end.

Definition do_read (s : st) (rs : list reg) (hw : option (list Z)) : st * result :=
  if unusable s then (s, RRaise)
  else match state s with
       | SReconnect => let s := error_read_write s in (s, RVals (lkg_values s rs))
       | _ =>
           match hw with
           | Some vs =>
               let s := with_lkg s (set_all (lkg s) (combine vs rs)) in
               (success_common s, RVals (map Some vs))
           | None => let s := error_read_write s in (s, RVals (lkg_values s rs))
           end
       end.

Definition step (s : st) (o : op) : st * result :=
  match o with
  | Read r hw => do_read s [r] (match hw with Some v => Some [v] | None => None end)
  | ReadBatch rs hw => do_read s rs hw
  | Write v r ok oks => do_write s [(v, r)] ok oks true
  | WriteBatch ps ok oks => do_write s ps ok oks false
  | Tick ok =>
      if in_states (state s) reconnecting_states then
        let t := rtick s + 1 in
        let s := {| state := state s; lkg := lkg s; pending := pending s; last_ok := last_ok s;
                    t_last_success := t_last_success s; t_reconnect := t_reconnect s; rtick := t;
                    tag_connected := tag_connected s; now := now s; mem := mem s; hwlog := hwlog s;
                    commanded := commanded s |} in
        if is_backoff_tick t then
          let s := upd_state s (state s) in                          (* on_reconnecting *)
          if ok then
            let s := upd_state s SOK in                              (* state := OK; on_reconnected *)
            ({| state := state s; lkg := lkg s; pending := pending s; last_ok := last_ok s;
                t_last_success := t_last_success s; t_reconnect := t_reconnect s;
                rtick := reconnect_tick_init;
                tag_connected := tag_connected s; now := now s; mem := mem s; hwlog := hwlog s;
                commanded := commanded s |}, RDone)
          else (s, RDone)
        else (s, RDone)
      else (s, RDone)
  | Connect ok =>
      if ok then
        match state s with
        | SDisconnected => (upd_state s SOK, RDone)
        | _ => (s, RDone)
        end
      else (s, RRaise)
  | Advance dt =>
      ({| state := state s; lkg := lkg s; pending := pending s; last_ok := last_ok s;
          t_last_success := t_last_success s; t_reconnect := t_reconnect s; rtick := rtick s;
          tag_connected := tag_connected s; now := now s + dt; mem := mem s; hwlog := hwlog s;
          commanded := commanded s |}, RDone)
  end.

(* a run: per operation (result, state after, tag after) ; finally the hardware log and pending *)
Fixpoint run_ops (s : st) (os : list op) : list (result * rstate * bool) * st :=
  match os with
  | [] => ([], s)
  | o :: os' =>
      let '(s', r) := step s o in
      let '(rest, sf) := run_ops s' os' in ((r, state s', tag_connected s') :: rest, sf)
  end.

Definition final (s : st) (os : list op) : st := fold_left (fun s o => fst (step s o)) os s.

(* ---------- correspondence interface (shared by C23 and C24) ---------- *)
Definition input := (bool * list op)%type.
Definition output := (list (result * rstate * bool) * list (reg * Z) * list (reg * Z))%type.
   (* per-op (result, state, tag) ; hardware write log ; pending at the end *)

Definition run (i : input) : output :=
  let '(obs, sf) := run_ops (init (fst i)) (snd i) in (obs, hwlog sf, pending sf).

Definition result_eqb (a b : result) : bool :=
  match a, b with
  | RRaise, RRaise | RDone, RDone => true
  | RVals x, RVals y => list_eqb (option_eqb Z.eqb) x y
  | _, _ => false
  end.
Definition obs_eqb (a b : result * rstate * bool) : bool :=
  let '(r1, s1, t1) := a in let '(r2, s2, t2) := b in
  result_eqb r1 r2 && state_eqb s1 s2 && Bool.eqb t1 t2.
Definition rv_eqb := pair_eqb Nat.eqb Z.eqb.
Definition out_eqb (a b : output) : bool :=
  let '(o1, l1, p1) := a in let '(o2, l2, p2) := b in
  list_eqb obs_eqb o1 o2 && list_eqb rv_eqb l1 l2 && list_eqb rv_eqb p1 p2.
