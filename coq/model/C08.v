(* C08: outputs with a safe value are safe on the hardware whenever no run is progressing.
   Monitor at the hardware write boundary: the images written (EHwWrite), run boundaries, Pause/Unpause, output
   assignments (by whom) and error pauses, as logged from the real engine, plus the hardware memory after every
   operation (model/EngRun.v). *)
From Coq Require Import ZArith List Bool Arith.
From OP Require Import lib.Obs model.Eng model.EngRun.
Import ListNotations.
Open Scope Z_scope.

Definition input := EngRun.input.
Definition output := EngRun.output.
Definition run := EngRun.run.
Definition out_eqb := EngRun.out_eqb.

(* every output from index i on that has a safe value and is not exempted holds it *)
Fixpoint safe_vals (i : nat) (ex : list nat) (sf : list (option Z)) (o : list Z) : bool :=
  match sf, o with
  | s :: sf', v :: o' =>
      (match s with Some x => memn i ex || (v =? x) | None => true end) && safe_vals (S i) ex sf' o'
  | _, _ => true
  end.
Fixpoint safe_hw (i : nat) (ex : list nat) (sf : list (option Z)) (h : list (option Z)) : bool :=
  match sf, h with
  | s :: sf', v :: h' =>
      (match s with Some x => memn i ex || (match v with Some y => y =? x | None => false end) | None => true end)
      && safe_hw (S i) ex sf' h'
  | _, _ => true
  end.

Record st8 := {
  active : bool;                          (* between set_run_id and clear_run_id *)
  idle_ok : bool;                         (* no run, and the last image written was written while no run was active *)
  pausing : option (list nat * bool) }.   (* a pause is in progress: outputs exempted since it began; image written since *)

Definition st_boot : st8 := {| active := false; idle_ok := false; pausing := None |}.
Definition st_after_boot : st8 := {| active := false; idle_ok := true; pausing := None |}.

(* strict = the property: only the user's assignments exempt an output during a pause, and an error pause is a pause.
   non-strict = what the code guarantees (proved): any assignment exempts, error pauses are not covered. *)
Definition ev8 (strict : bool) (sf : list (option Z)) (s : st8) (x : ev) : option st8 :=
  match x with
  | EHwWrite vals =>
      if negb (active s) then
        if safe_vals 0 [] sf vals then Some {| active := false; idle_ok := true; pausing := pausing s |} else None
      else match pausing s with
           | Some (ex, _) => if safe_vals 0 ex sf vals then Some {| active := true; idle_ok := idle_ok s; pausing := Some (ex, true) |}
                             else None
           | None => Some s
           end
  | EStarted _ => Some {| active := true; idle_ok := false; pausing := None |}
  | EStoppedRun => Some {| active := false; idle_ok := false; pausing := None |}
  | EPause _ _ => Some {| active := active s; idle_ok := idle_ok s;
                          pausing := match pausing s with None => Some ([], false) | p => p end |}
  | EUnpause _ => Some {| active := active s; idle_ok := idle_ok s; pausing := None |}
  | EOut user i _ =>
      Some {| active := active s; idle_ok := idle_ok s;
              pausing := match pausing s with
                         | Some (ex, w) => if user || negb strict then Some (i :: ex, w) else Some (ex, w)
                         | None => None
                         end |}
  | EError =>
      if strict && active s then
        Some {| active := active s; idle_ok := idle_ok s;
                pausing := match pausing s with None => Some ([], false) | p => p end |}
      else Some s
  | _ => Some s
  end.

Fixpoint mon8 (strict : bool) (sf : list (option Z)) (s : st8) (evs : list ev) : option st8 :=
  match evs with
  | [] => Some s
  | x :: r => match ev8 strict sf s x with Some s' => mon8 strict sf s' r | None => None end
  end.

(* what the state promises about the hardware memory *)
Definition hw_ok (sf : list (option Z)) (s : st8) (h : list (option Z)) : bool :=
  (if idle_ok s then safe_hw 0 [] sf h else true)
  && (match pausing s with Some (ex, true) => safe_hw 0 ex sf h | _ => true end).

Fixpoint walk (strict : bool) (sf : list (option Z)) (s : st8) (vs : output) : bool :=
  match vs with
  | [] => true
  | v :: vs' =>
      match mon8 strict sf s (v_events v) with
      | Some s' => hw_ok sf s' (v_hw v) && walk strict sf s' vs'
      | None => false
      end
  end.

Definition holds_b (i : input) (o : output) : bool := walk true (c_safe (fst i)) st_after_boot o.
