(* Model of Aggregator.create_engine_id and the registration / connection gate
   (aggregator.py, aggregator_message_handlers.py handle_RegisterEngineMsg,
   aggregator_dispatcher.py _on_delayed_client_connect / on_client_disconnect). *)
From Coq Require Import ZArith List Bool.
From OP Require Import lib.Obs.
Import ListNotations.
Open Scope Z_scope.

Definition underscore : Z := 95.
(* the string handed to urllib.parse.quote(.., safe="") *)
Definition joined (c u : str) : str := c ++ underscore :: u.

Section WithQuote.
  Variable quote : str -> str.
  Definition engine_id (c u : str) : str := quote (joined c u).
End WithQuote.

(* --- registration gate; engines are indices into a table of (computer, uod) names --- *)
Inductive op :=
| Reg (p : nat) (secret_ok version_ok ignore_version : bool)
| Conn (p : nat)
| Disc (p : nat).

(* connected: (id key, owner) newest first; ids are compared through their pre-image under
   quote, i.e. the joined string (quote is injective: hypothesis of the theorems, validated
   by the correspondence which compares the real id strings for equality) *)
Definition st := list (str * nat).

Definition key_of (names : list (str * str)) (p : nat) : str :=
  let '(c, u) := nth p names ([], []) in joined c u.

Definition is_connected (s : st) (k : str) : bool := existsb (fun e => str_eqb (fst e) k) s.

Definition step (names : list (str * str)) (s : st) (o : op) : st * bool :=
  match o with
  | Reg p sec ver ign =>
      if negb sec then (s, false)
      else if is_connected s (key_of names p) then (s, false)
      else if negb ver && negb ign then (s, false)
      else (s, true)
  | Conn p =>
      if is_connected s (key_of names p) then (s, false)
      else ((key_of names p, p) :: s, true)
  | Disc p =>
      if existsb (fun e => Nat.eqb (snd e) p) s
      then (filter (fun e => negb (Nat.eqb (snd e) p)) s, true)
      else (s, false)
  end.

Fixpoint steps (names : list (str * str)) (s : st) (os : list op) : list bool :=
  match os with
  | [] => []
  | o :: os' => let '(s', r) := step names s o in r :: steps names s' os'
  end.

Fixpoint final (names : list (str * str)) (s : st) (os : list op) : st :=
  match os with [] => s | o :: os' => final names (fst (step names s o)) os' end.

(* id-equality matrix over the name table, row major, i < j *)
Fixpoint pairs_from {A} (l : list A) : list (A * A) :=
  match l with [] => [] | x :: l' => map (fun y => (x, y)) l' ++ pairs_from l' end.
Definition same_id (a b : str * str) : bool := str_eqb (joined (fst a) (snd a)) (joined (fst b) (snd b)).

Definition input := (list (str * str) * list op)%type.
Definition output := (list bool * list bool)%type.   (* id-equality matrix, per-op results *)

Definition run (i : input) : output :=
  (map (fun ab => same_id (fst ab) (snd ab)) (pairs_from (fst i)), steps (fst i) [] (snd i)).

Definition out_eqb (a b : output) : bool :=
  list_eqb Bool.eqb (fst a) (fst b) && list_eqb Bool.eqb (snd a) (snd b).

Definition names_eqb (a b : str * str) : bool := str_eqb (fst a) (fst b) && str_eqb (snd a) (snd b).

(* Monitor on the implementation's output.
   (1) distinct name pairs never share an id;
   (2) no take-over: a registration for an id that is connected (per the implementation's own
       connect/disconnect answers and id-equality matrix) is refused. *)
Fixpoint nth_pair_index (n i j : nat) : nat :=   (* position of (i,j), i<j, in pairs_from over n items *)
  match i with
  | O => j - 1
  | S i' => (n - 1) + nth_pair_index (n - 1) i' (j - 1)
  end.
Definition impl_same (n : nat) (mat : list bool) (i j : nat) : bool :=
  if Nat.eqb i j then true
  else if Nat.ltb i j then nth (nth_pair_index n i j) mat false
  else nth (nth_pair_index n j i) mat false.

Fixpoint takeover_ok (n : nat) (mat : list bool) (conn : list nat) (os : list op) (rs : list bool) : bool :=
  match os, rs with
  | o :: os', r :: rs' =>
      match o with
      | Reg p _ _ _ =>
          (if existsb (fun q => impl_same n mat p q) conn then negb r else true)
          && takeover_ok n mat conn os' rs'
      | Conn p => takeover_ok n mat (if r then p :: conn else conn) os' rs'
      | Disc p => takeover_ok n mat (if r then filter (fun q => negb (Nat.eqb q p)) conn else conn) os' rs'
      end
  | _, _ => true
  end.

Definition distinct_ok (names : list (str * str)) (mat : list bool) : bool :=
  list_eqb Bool.eqb
    (map (fun t => negb (names_eqb (fst (fst t)) (snd (fst t))) && snd t)
         (combine (pairs_from names) mat))
    (map (fun _ => false) (combine (pairs_from names) mat))
  && Nat.eqb (length mat) (length (pairs_from names)).

Definition holds_b (i : input) (o : output) : bool :=
  distinct_ok (fst i) (fst o) && takeover_ok (length (fst i)) (fst o) [] (snd i) (snd o).
