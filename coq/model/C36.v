(* C36: correspondence interface over the shared tag reporting model (model/Tags.v). *)
From OP Require Import lib.Obs model.Tags.
Definition input := Tags.input.
Definition output := Tags.output.
Definition run := Tags.run.
Definition out_eqb := Tags.out_eqb.
Definition holds_b := Tags.c36_holds_b.
