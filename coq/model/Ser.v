(* Threads, one global lock, critical sections (C40).
   A thread is a list of sections; a section is a list of atomic micro-steps on the shared state and
   is either executed under the lock or not.  A schedule picks, step by step, which thread moves.
   Executable definitions only. *)
From Coq Require Import List Bool Arith.
Import ListNotations.

Section Ser.
  Variable S : Type.
  Definition mstep := S -> S.
  Record section := { locked : bool; steps : list mstep }.

  (* thread state: the section in progress (done steps are kept as a ghost), and what is still to do *)
  Record tstate := { cur : option (section * list mstep * list mstep);   (* section, done, remaining *)
                     todo : list section }.

  Record cfg := { state : S; holder : option nat; threads : list tstate;
                  hist : list (nat * section) }.      (* ghost: sections in the order they were COMPLETED *)

  Fixpoint upd {A} (l : list A) (i : nat) (x : A) : list A :=
    match l, i with
    | [], _ => []
    | _ :: l', O => x :: l'
    | y :: l', Datatypes.S i' => y :: upd l' i' x
    end.

  Definition holds (c : cfg) (i : nat) : bool :=
    match holder c with Some h => Nat.eqb h i | None => false end.
  Definition free (c : cfg) : bool := match holder c with None => true | Some _ => false end.

  (* thread i performs its next move; a move that needs the lock while another thread holds it is a
     no-op (the thread is blocked) *)
  Definition move (c : cfg) (i : nat) : cfg :=
    match nth_error (threads c) i with
    | None => c
    | Some t =>
        match cur t with
        | Some (sec, done, f :: rest) =>
            {| state := f (state c); holder := holder c;
               threads := upd (threads c) i {| cur := Some (sec, done ++ [f], rest); todo := todo t |};
               hist := hist c |}
        | Some (sec, done, []) =>            (* leave the section; release the lock if it was taken *)
            {| state := state c; holder := if locked sec then None else holder c;
               threads := upd (threads c) i {| cur := None; todo := todo t |};
               hist := hist c ++ [(i, sec)] |}
        | None =>
            match todo t with
            | [] => c
            | sec :: more =>
                if locked sec then
                  if free c then
                    {| state := state c; holder := Some i;
                       threads := upd (threads c) i {| cur := Some (sec, [], steps sec); todo := more |};
                       hist := hist c |}
                  else c                      (* blocked on the lock *)
                else
                  {| state := state c; holder := holder c;
                     threads := upd (threads c) i {| cur := Some (sec, [], steps sec); todo := more |};
                     hist := hist c |}
            end
        end
    end.

  Definition start (s0 : S) (ts : list (list section)) : cfg :=
    {| state := s0; holder := None; threads := map (fun l => {| cur := None; todo := l |}) ts; hist := [] |}.

  Definition run (s0 : S) (ts : list (list section)) (sched : list nat) : cfg :=
    fold_left move sched (start s0 ts).

  (* serial execution of whole sections *)
  Definition run_steps (fs : list mstep) (s : S) : S := fold_left (fun s f => f s) fs s.
  Definition run_section (s : S) (sec : section) : S := run_steps (steps sec) s.
  Definition run_serial (s0 : S) (secs : list section) : S := fold_left run_section secs s0.

  Definition finished (c : cfg) : bool :=
    forallb (fun t => match cur t, todo t with None, [] => true | _, _ => false end) (threads c).
End Ser.

Arguments locked {S}. Arguments steps {S}. Arguments cur {S}. Arguments todo {S}.
Arguments state {S}. Arguments holder {S}. Arguments threads {S}. Arguments hist {S}.
