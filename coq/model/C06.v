(* C06: run state and System State agree; control commands are gated; run ids are fresh.
   Monitor on the views observed after every operation (model/EngRun.v). *)
From Coq Require Import ZArith List Bool Arith.
From OP Require Import lib.Obs model.Eng model.EngRun.
Import ListNotations.
Open Scope Z_scope.

Definition input := EngRun.input.
Definition output := EngRun.output.
Definition run := EngRun.run.
Definition out_eqb := EngRun.out_eqb.

Definition flag (v : view) (k : nat) : bool := nth k (v_flags v) false.
Definition v_started v := flag v 0.
Definition v_paused v := flag v 1.
Definition v_holding v := flag v 2.
Definition v_accepted v := flag v 6.

(* the System State as a function of the run-state flags *)
Definition state_ok (v : view) : bool :=
  match v_sys v with
  | Stopped => negb (v_started v)
  | Restarting => v_started v && existsb (iname_eqb Restart) (v_reg v)
  | Paused => v_started v && v_paused v
  | Holding => v_started v && negb (v_paused v) && v_holding v
  | Running => v_started v && negb (v_paused v) && negb (v_holding v)
  end.

(* a run id exactly while a run is active *)
Definition run_ok (v : view) : bool :=
  match v_run v with Some _ => v_started v | None => negb (v_started v) end.

(* validity of a user control command in the state shown by a view (engine.py _validate_control_command is the
   implementation; this is the property's reading: by System State, paused and holding) *)
Definition valid_in (v : view) (n : iname) : bool :=
  let idle := sys_eqb (v_sys v) Stopped || sys_eqb (v_sys v) Restarting in
  match n with
  | Start => sys_eqb (v_sys v) Stopped
  | Stop | Restart => negb idle
  | Pause => negb idle && negb (v_paused v)
  | Unpause => negb idle && v_paused v
  | Hold => negb idle && negb (v_holding v)
  | Unhold => negb idle && v_holding v
  | Info => true
  end.

Definition view0 (c : cfg) : view := view_of (start_state c) true 0.

(* fresh: whenever the run id changes to Some r, r was never shown before (ids are numbered by first appearance,
   so a fresh one is the number of ids seen so far) *)
Fixpoint walk (prev : view) (seen : nat) (os : list op) (vs : output) : bool :=
  match os, vs with
  | [], [] => true
  | o :: os', v :: vs' =>
      state_ok v && run_ok v
      && (match o with
          | OUser _ n => Bool.eqb (v_accepted v) (valid_in prev n)
          | _ => true
          end)
      && (match v_run v with
          | Some r => if option_eqb Nat.eqb (v_run prev) (Some r) then walk v seen os' vs'
                      else Nat.eqb r seen && walk v (S seen) os' vs'
          | None => walk v seen os' vs'
          end)
  | _, _ => false
  end.

Definition holds_b (i : input) (o : output) : bool := walk (view0 (fst i)) 0 (snd i) o.
