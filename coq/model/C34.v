(* Model of openpectus/aggregator/csv_generator.py: _write_header_row (stable sort per entry),
   _get_tick_times, _write_data_rows (per-entry cursor). Executable definitions only. *)
From Coq Require Import ZArith List Bool.
From OP Require Import lib.Obs.
Import ListNotations.
Open Scope Z_scope.

Definition sample := (Z * Z)%type.           (* (tick_time, value) *)
Definition stime (s : sample) := fst s.
Definition sval (s : sample) := snd s.

(* list.sort(key=tick_time) is stable: x goes in front of the first element with key >= its own *)
Fixpoint ins (x : sample) (l : list sample) : list sample :=
  match l with
  | [] => [x]
  | y :: l' => if stime x <=? stime y then x :: l else y :: ins x l'
  end.
(* folding from the right keeps equal keys in original order *)
Fixpoint sort_by_time (l : list sample) : list sample :=
  match l with
  | [] => []
  | x :: l' =>
ins x (sort_by_time l')
  end.

(* sorted(set(times)) *)
Fixpoint insert_uniq (t : Z) (l : list Z) : list Z :=
  match l with
  | [] => [t]
  | u :: l' => if t <? u then t :: l else if t =? u then l else u :: insert_uniq t l'
  end.
Definition tick_times (entries : list (list sample)) : list Z :=
  fold_right insert_uniq [] (map stime (concat entries)).

(* while len(values) >= 2 and tick >= values[1].tick_time: values.pop(0) *)
Fixpoint advance (tick : Z) (vs : list sample) : list sample :=
  match vs with
  | a :: ((b :: _) as rest) => if stime b <=? tick then advance tick rest else vs
  | _ => vs
  end.

Definition cell (tick : Z) (vs : list sample) : option Z :=
  match vs with
  | [] => None
  | a :: _ => if tick <? stime a then None else Some (sval a)
  end.

(* one data row: returns the cells and the advanced cursors *)
Definition row (tick : Z) (cursors : list (list sample)) : list (option Z) * list (list sample) :=
  let cs := map (advance tick) cursors in (map (cell tick) cs, cs).

Fixpoint rows (ticks : list Z) (cursors : list (list sample)) : list (list (option Z)) :=
  match ticks with
  | [] => []
  | t :: ts => let '(r, cs) := row t cursors in r :: rows ts cs
  end.

Definition export (entries : list (list sample)) : list (Z * list (option Z)) :=
  let sorted := map sort_by_time entries in
  let ticks := tick_times entries in
  combine ticks (rows ticks sorted).

(* ---------- specification: sample-and-hold ---------- *)
(* latest sample (in stable sorted order) whose time is <= tick *)
Fixpoint last_le (tick : Z) (vs : list sample) (acc : option Z) : option Z :=
  match vs with
  | [] => acc
  | a :: vs' => last_le tick vs' (if stime a <=? tick then Some (sval a) else acc)
  end.
Definition hold (tick : Z) (vs : list sample) : option Z := last_le tick (sort_by_time vs) None.

Fixpoint increasing (l : list Z) : bool :=
  match l with
  | a :: ((b :: _) as l') => (a <? b) && increasing l'
  | _ => true
  end.

(* ---------- correspondence interface ---------- *)
Definition input := list (list sample).
Definition output := list (Z * list (option Z)).

Definition run (i : input) : output := export i.

Definition cell_eqb := option_eqb Z.eqb.
Definition row_eqb (a b : Z * list (option Z)) := (fst a =? fst b) && list_eqb cell_eqb (snd a) (snd b).
Definition out_eqb : output -> output -> bool := list_eqb row_eqb.

(* monitor on an implementation output: row times strictly increasing, every cell is the
   sample-and-hold value *)
Definition holds_b (i : input) (o : output) : bool :=
  increasing (map fst o) &&
  forallb (fun r => list_eqb cell_eqb (snd r) (map (hold (fst r)) i)) o.
