(* C21: unit-aware comparisons (openpectus/lang/exec/units.py: are_comparable, get_compatible_unit_names, compare_values).
   Units are indices into the generated table gen/Units.v. Decimal values are exact: m / 10^k. The conversions pint
   performs (Decimal arithmetic with 28 significant digits) are ORACLES of the model: the harness computes them with the
   very registry compare_values uses and passes them in; the model reproduces what compare_values does with them. *)
From Coq Require Import ZArith QArith List Bool Arith.
From OP Require Import lib.Obs gen.Units.
Import ListNotations.

Definition memn (x : nat) (l : list nat) : bool := existsb (Nat.eqb x) l.
Definition quantity (u : nat) : nat := nth u unit_quantity 0%nat.
Definition supported (u : nat) : bool := Nat.ltb u (length unit_quantity).
(* get_compatible_unit_names: the units of the same quantity; vol%, wt%, mol% are compatible only with themselves *)
Definition compat (u : nat) : list nat :=
  if memn u self_only then [u] else filter (fun v => Nat.eqb (quantity v) (quantity u)) (seq 0 (length unit_quantity)).
(* are_comparable (with the /repo fix: either unit lists the other) *)
Definition comparable (a b : option nat) : bool :=
  match a, b with
  | None, None => true
  | Some x, Some y => Nat.eqb x y || (Nat.eqb (quantity x) (quantity y) && (memn y (compat x) || memn x (compat y)))
  | _, _ => false
  end.
(* before the fix: only the first unit's list was consulted *)
Definition comparable_old (a b : option nat) : bool :=
  match a, b with
  | None, None => true
  | Some x, Some y => Nat.eqb x y || (Nat.eqb (quantity x) (quantity y) && memn y (compat x))
  | _, _ => false
  end.

Record dec := { d_m : Z; d_k : nat }.                                (* m / 10^k *)
Definition val (x : dec) : Q := Qmake (d_m x) (Z.to_pos (10 ^ Z.of_nat (d_k x))).
Definition cmp (x y : dec) : comparison := Qcompare (val x) (val y).
Definition is_zero (x : dec) : bool := Z.eqb (d_m x) 0.

Inductive res := RT | RF | RR.                                       (* True, False, raised *)
Definition ofb (b : bool) : res := if b then RT else RF.
Record six := { r_lt : res; r_le : res; r_gt : res; r_ge : res; r_eq : res; r_ne : res }.
Definition six_of (c : comparison) : six :=
  {| r_lt := ofb (match c with Lt => true | _ => false end); r_le := ofb (match c with Gt => false | _ => true end);
     r_gt := ofb (match c with Gt => true | _ => false end); r_ge := ofb (match c with Lt => false | _ => true end);
     r_eq := ofb (match c with Eq => true | _ => false end); r_ne := ofb (match c with Eq => false | _ => true end) |}.
Definition all_raise : six := {| r_lt := RR; r_le := RR; r_gt := RR; r_ge := RR; r_eq := RR; r_ne := RR |}.

Record cmpcase := {
  c_ua : option nat; c_ub : option nat; c_a : dec; c_b : dec;
  c_dim_ok : bool;                 (* oracle: pint gives both units the same dimensionality *)
  c_b_in_a : dec;                  (* oracle: b converted to a's unit, as pint computes it *)
  (* the truth, used by the monitor only: value * f + o is the physical quantity in the quantity's reference unit *)
  c_fa : Q; c_oa : Q; c_fb : Q; c_ob : Q }.

Definition same_unit (c : cmpcase) : bool :=
  match c_ua c, c_ub c with
  | None, None => true
  | Some x, Some y => Nat.eqb x y
  | _, _ => false
  end.
(* compare_values for all six operators (with the /repo fix: b is converted to a's unit once, for every operator) *)
Definition compare_all (c : cmpcase) : six :=
  if negb (comparable (c_ua c) (c_ub c)) then all_raise
  else if same_unit c then six_of (cmp (c_a c) (c_b c))
  else if negb (c_dim_ok c) then all_raise
  else six_of (cmp (c_a c) (c_b_in_a c)).
(* before the fix: < <= > >= compared in pint's root units, = in a's unit, != in b's unit (and pint answers "equal" for two
   zero magnitudes of equal dimensionality whatever their units) *)
Record old_oracles := { o_a_root : dec; o_b_root : dec; o_a_in_b : dec }.
Definition compare_all_old (c : cmpcase) (r : old_oracles) : six :=
  let o := six_of (cmp (o_a_root r) (o_b_root r)) in
  {| r_lt := r_lt o; r_le := r_le o; r_gt := r_gt o; r_ge := r_ge o;
     r_eq := ofb (match cmp (c_a c) (c_b_in_a c) with Eq => true | _ => false end);
     r_ne := ofb (negb ((is_zero (c_a c) && is_zero (c_b c)) || match cmp (o_a_in_b r) (c_b c) with Eq => true | _ => false end)) |}.

(* ---------- correspondence interface ---------- *)
Inductive input := ICmp (c : cmpcase) | IComparable (a b : option nat).
Inductive output := OCmp (s : six) | OPair (ab ba : bool).     (* are_comparable(a, b), are_comparable(b, a) *)
Definition run (i : input) : output :=
  match i with ICmp c => OCmp (compare_all c) | IComparable a b => OPair (comparable a b) (comparable b a) end.
Definition res_eqb (a b : res) : bool := match a, b with RT, RT | RF, RF | RR, RR => true | _, _ => false end.
Definition six_eqb (a b : six) : bool :=
  res_eqb (r_lt a) (r_lt b) && res_eqb (r_le a) (r_le b) && res_eqb (r_gt a) (r_gt b) && res_eqb (r_ge a) (r_ge b)
  && res_eqb (r_eq a) (r_eq b) && res_eqb (r_ne a) (r_ne b).
Definition out_eqb (a b : output) : bool :=
  match a, b with OCmp x, OCmp y => six_eqb x y | OPair x1 x2, OPair y1 y2 => Bool.eqb x1 y1 && Bool.eqb x2 y2 | _, _ => false end.

(* ---------- the property on the observation ---------- *)
Definition phys_a (c : cmpcase) : Q := val (c_a c) * c_fa c + c_oa c.
Definition phys_b (c : cmpcase) : Q := val (c_b c) * c_fb c + c_ob c.
(* the comparison of the physical quantities *)
Definition spec (c : cmpcase) : six := six_of (Qcompare (phys_a c) (phys_b c)).
Definition holds_b (i : input) (o : output) : bool :=
  match i, o with
  | ICmp c, OCmp s =>
      if comparable (c_ua c) (c_ub c) && (same_unit c || c_dim_ok c) then six_eqb s (spec c)
      else true                       (* not comparable quantities: nothing is promised *)
  | IComparable a b, OPair ab ba => Bool.eqb ab ba                  (* comparability does not depend on the order *)
  | _, _ => false
  end.
