(* C13: engine ticks never crash; errors pause the run. Engine-core part: errors raised by the interpreter (scripted),
   by UOD commands, by tracking and by the hardware layer. Monitor on the views of the real engine. *)
From Coq Require Import ZArith List Bool Arith.
From OP Require Import lib.Obs model.Eng model.EngRun.
Import ListNotations.
Open Scope Z_scope.

Definition input := EngRun.input.
Definition output := EngRun.output.
Definition run := EngRun.run.
Definition out_eqb := EngRun.out_eqb.

Definition flag (v : view) (k : nat) : bool := nth k (v_flags v) false.

Definition is_crash (x : ev) : bool := match x with ECrash => true | _ => false end.
(* events after the last EError of the operation: does anything that legitimately changes the run state follow it *)
Fixpoint after_error (evs : list ev) (seen_err : bool) (clean : bool) : bool * bool :=
  match evs with
  | [] => (seen_err, clean)
  | EError :: r => after_error r true true
  | EUnpause _ :: r | EStoppedRun :: r | EStarted _ :: r | EPause _ _ :: r => after_error r seen_err false
  | _ :: r => after_error r seen_err clean
  end.

(* per operation:
   - no exception escaped the tick;
   - if the operation ended in the error state (set_error_state called, nothing changed the run state afterwards):
     paused, Method Status Error, and System State Paused (or Restarting, when a Restart queued earlier began in the same tick);
   - responsiveness: once the user's Stop has been accepted the engine is Stopped within `patience` ticks *)
Definition patience : nat := 4.
Fixpoint walk (os : list op) (vs : output) (deadline : option nat) : bool :=
  match os, vs with
  | [], [] => true
  | o :: os', v :: vs' =>
      negb (existsb is_crash (v_events v))
      && (let '(err, clean) := after_error (v_events v) false false in
          if err && clean then flag v 1 && flag v 4 && flag v 5 && (sys_eqb (v_sys v) Paused || sys_eqb (v_sys v) Restarting) else true)
      && (let stopped := sys_eqb (v_sys v) Stopped in
          let dl := if stopped then None
                    else match o, deadline with
                         | OUser _ Stop, None => if flag v 6 then Some patience else None
                         | OTick _, Some (S k) => Some k
                         | _, d => d
                         end in
          match dl with
          | Some O => false
          | _ => walk os' vs' dl
          end)
  | _, _ => false
  end.

Definition holds_b (i : input) (o : output) : bool := walk (snd i) o None.
