(* C13: engine ticks never crash; errors pause the run. Engine-core part: errors raised by the interpreter (scripted),
   by UOD commands, by tracking and by the hardware layer. Monitor on the views of the real engine. *)
From Coq Require Import ZArith List Bool Arith.
From OP Require Import lib.Obs model.Eng model.EngRun.
Import ListNotations.
Open Scope Z_scope.

(* second stream: method TEXTS (and injected snippets) run on the real engine; only what every tick shows is observed *)
Record ttick := { tt_raised : bool;          (* Engine.tick raised *)
                  tt_error : bool;           (* the engine is in the error state *)
                  tt_paused : bool; tt_status_error : bool;
                  tt_failed : bool;          (* the method state lists a failed line (or the failing code was injected) *)
                  tt_stopped : bool }.
Record tcase := { tc_stop_at : option nat;   (* the tick before which the user presses Stop *)
                  tc_resumes : bool }.       (* the text or an injected snippet holds an Unpause or a timed Pause: the method itself may
                                                resume the run in the very tick the error pauses it *)
Inductive input := IEng (i : EngRun.input) | IText (c : tcase).
Inductive output := OEng (o : EngRun.output) | OText (l : list ttick).
(* for a text the model only says: no tick raises (Engine.tick is total in the model) *)
Definition run (i : input) : output := match i with IEng x => OEng (EngRun.run x) | IText _ => OText [] end.
Definition out_eqb (m o : output) : bool :=
  match m, o with
  | OEng a, OEng b => EngRun.out_eqb a b
  | OText _, OText l => forallb (fun t => negb (tt_raised t)) l
  | _, _ => false
  end.

Definition flag (v : view) (k : nat) : bool := nth k (v_flags v) false.

Definition is_crash (x : ev) : bool := match x with ECrash => true | _ => false end.
(* events after the last EError of the operation: does anything that legitimately changes the run state follow it *)
Fixpoint after_error (evs : list ev) (seen_err : bool) (clean : bool) : bool * bool :=
  match evs with
  | [] => (seen_err, clean)
  | EError :: r => after_error r true true
  | EUnpause _ :: r | EStoppedRun :: r | EStarted _ :: r | EPause _ _ :: r => after_error r seen_err false
  | _ :: r => after_error r seen_err clean
  end.

(* per operation:
   - no exception escaped the tick;
   - if the operation ended in the error state (set_error_state called, nothing changed the run state afterwards):
     paused, Method Status Error, and System State Paused (or Restarting, when a Restart queued earlier began in the same tick);
   - responsiveness: once the user's Stop has been accepted the run is ended (clear_run_id) or the engine is Stopped within
     `patience` ticks (a Restart the user issues after the Stop ends the run too and then starts the next one) *)
Definition patience : nat := 4.
Fixpoint walk (os : list op) (vs : EngRun.output) (deadline : option nat) : bool :=
  match os, vs with
  | [], [] => true
  | o :: os', v :: vs' =>
      negb (existsb is_crash (v_events v))
      && (let '(err, clean) := after_error (v_events v) false false in
          if err && clean then flag v 1 && flag v 4 && flag v 5 && (sys_eqb (v_sys v) Paused || sys_eqb (v_sys v) Restarting) else true)
      && (let stopped := sys_eqb (v_sys v) Stopped || existsb (fun x => match x with EStoppedRun => true | _ => false end) (v_events v) in
          let dl := if stopped then None
                    else match o, deadline with
                         | OUser _ Stop, None => if flag v 6 then Some patience else None
                         | OTick _, Some (S k) => Some k
                         | _, d => d
                         end in
          match dl with
          | Some O => false
          | _ => walk os' vs' dl
          end)
  | _, _ => false
  end.

(* texts: no tick raises; when the engine enters the error state (and Stop has not been pressed) the run is paused with
   Method Status Error and the failing instruction is marked failed; after Stop the engine is Stopped within `patience` ticks *)
Fixpoint twalk (resumes : bool) (k : nat) (prev_error : bool) (stop_at : option nat) (l : list ttick) : bool :=
  match l with
  | [] => true
  | t :: l' =>
      negb (tt_raised t)
      (* in the tick in which the error state is entered (later, a timed Pause that expires or an Unpause instruction may
         legitimately resume the run) *)
      && (let stop_pressed := match stop_at with Some s => Nat.leb s k | None => false end in
          if tt_error t && negb prev_error && negb stop_pressed then (tt_paused t || resumes) && tt_status_error t && tt_failed t else true)
      && (match stop_at with Some s => if Nat.leb (s + patience) k then tt_stopped t else true | None => true end)
      && twalk resumes (Datatypes.S k) (tt_error t) stop_at l'
  end.
Definition holds_b (i : input) (o : output) : bool :=
  match i, o with
  | IEng x, OEng y => walk (snd x) y None
  | IText c, OText l => twalk (tc_resumes c) 0 false (tc_stop_at c) l
  | _, _ => false
  end.
