(* Model of the engine core (family F3):
     Engine.tick, set_error_state, _apply_safe_state/_apply_state, write_process_image,
     update_calculated_tags with BlockTimeTag / ScopeTimeTag            (engine.py, tags_impl.py)
     _validate_control_command, execute_control_command_from_user, schedule_execution
     CommandManager.execute_commands / _execute_internal_command / _execute_uod_command /
       _cancel_command / _finalize_command / cancel_commands           (command_manager.py)
     InternalEngineCommand.tick and the _run bodies of Start, Stop, Pause, Unpause, Hold, Unhold,
       Restart, Info/Warning/Error (generators defunctionalised)       (internal_commands*.py)
     UodCommand life cycle and UnitOperationDefinitionBase.command_instances (uod.py)
   The interpreter is an input: per tick the requests it schedules and whether it raises.
   Time is an integer number of clock units.  Executable definitions only. *)
From Coq Require Import ZArith List Bool Arith.
From OP Require Import lib.Obs.
Import ListNotations.
Open Scope Z_scope.

Inductive sysst := Stopped | Running | Paused | Holding | Restarting.
Inductive iname := Start | Stop | Pause | Unpause | Hold | Unhold | Restart | Info.
Inductive cname := CI (n : iname) | CU (u : nat).

Definition iname_eqb (a b : iname) : bool :=
  match a, b with
  | Start, Start | Stop, Stop | Pause, Pause | Unpause, Unpause | Hold, Hold | Unhold, Unhold
  | Restart, Restart | Info, Info => true
  | _, _ => false
  end.
Definition cname_eqb (a b : cname) : bool :=
  match a, b with
  | CI x, CI y => iname_eqb x y
  | CU x, CU y => Nat.eqb x y
  | _, _ => false
  end.
Definition sys_eqb (a b : sysst) : bool :=
  match a, b with
  | Stopped, Stopped | Running, Running | Paused, Paused | Holding, Holding | Restarting, Restarting => true
  | _, _ => false
  end.

(* a UOD command's behaviour: completes at iteration u_dur, raises at iteration u_fail, assigns an
   output tag on every execution (value + iteration number) *)
Record uscript := { u_dur : nat; u_fail : option nat; u_out : option (nat * Z) }.
(* r_cancellable: the node behind the request accepts cancel() -- UOD command lines and Pause/Hold lines with a
   duration do; the NullNode of a request that did not come from a method line does not *)
(* r_tracked: tracking was enabled when the request's instance id was created; an id created while tracking is
   disabled is unknown to tracking later on *)
Record request := { r_id : nat; r_name : cname; r_dur : option Z; r_scr : uscript; r_user : bool; r_cancellable : bool;
                    r_tracked : bool }.

Record icmd := { i_name : iname; i_id : nat; i_pc : nat; i_end : option Z; i_durarg : option Z;
                 i_complete : bool; i_failed : bool; i_cancelled : bool }.
Record ucmd := { c_name : nat; c_id : nat; c_init : bool; c_started : bool; c_iter : Z; c_complete : bool;
                 c_cancelled : bool }.

Inductive ev :=
| EUInit (n id : nat) | EUExec (n id : nat) (iter : Z) | EUFinal (n id : nat)
| EHwWrite (vals : list Z)
| EStarted (rid : nat) | EStoppedRun              (* set_run_id / clear_run_id *)
| EPause (already : bool) (captured : list (nat * Z))      (* Pause._run: was the run already paused; what it captured *)
| EUnpause (restored : option (list (nat * Z)))            (* Unpause._run: the captured state it applied, if any *)
| EClock (s : sysst) (dt : Z) (before after : list Z)      (* update_calculated_tags: System State, increment, the four clocks before and after *)
| EOut (user : bool) (i : nat) (v : Z)                      (* an output tag is assigned: by the user / a user-issued command, or by a method-issued command *)
| EError                                                   (* set_error_state *)
| ECrash.                                                  (* an exception escaped Engine.tick (never emitted by the model) *)

Record E := {
  started : bool; paused : bool; holding : bool; stopping : bool;
  sys : sysst; run_id : option nat; next_run : nat;
  m_err : bool; last_err : bool;
  prev : option (list (nat * Z));
  outs : list Z;
  hw : list (option Z);
  ptime : Z; rtime : Z; btime : Z; stime : Z; bpaused : bool; root_on : bool;
  trk : bool;                 (* tracking enabled (Start .. Stop) *)
  creqs : list nat;           (* requests whose node has been cancelled (a node accepts cancel() once) *)
  iticks : nat;               (* ticks of the current interpreter object (0, 1, 2 = two or more) *)
  sT : Z; s_on : bool;        (* ScopeTimeTag: the root scope's timer (kept across runs) and whether it exists *)
  reg : list icmd; uods : list ucmd;
  exe : list request; done : list nat; que : list request;
  restart_pending : option request;
  now : Z;
  wok : bool;                                   (* hardware writes succeed during the current tick *)
  trace : list ev }.

Section Cfg.
  Variable safe : list (option Z).                 (* per output register: its safe value, if any *)
  Variable overlaps : list (list nat).             (* lists of UOD commands declared as overlapping *)

  (* ---------- record updates ---------- *)
  Definition upd_flags (e : E) (st pa ho sp : bool) : E :=
    {| started := st; paused := pa; holding := ho; stopping := sp; sys := sys e; run_id := run_id e; next_run := next_run e;
       m_err := m_err e; last_err := last_err e; prev := prev e; outs := outs e; hw := hw e; ptime := ptime e;
       rtime := rtime e; btime := btime e; stime := stime e; bpaused := bpaused e; root_on := root_on e; sT := sT e; s_on := s_on e; iticks := iticks e; trk := trk e; creqs := creqs e; reg := reg e;
       uods := uods e; exe := exe e; done := done e; que := que e; restart_pending := restart_pending e; now := now e;
       wok := wok e; trace := trace e |}.
  Definition set_sys (e : E) (s : sysst) : E :=
    {| started := started e; paused := paused e; holding := holding e; stopping := stopping e; sys := s; run_id := run_id e;
       next_run := next_run e; m_err := m_err e; last_err := last_err e; prev := prev e; outs := outs e; hw := hw e;
       ptime := ptime e; rtime := rtime e; btime := btime e; stime := stime e; bpaused := bpaused e; root_on := root_on e; sT := sT e; s_on := s_on e; iticks := iticks e; trk := trk e; creqs := creqs e;
       reg := reg e; uods := uods e; exe := exe e; done := done e; que := que e; restart_pending := restart_pending e;
       now := now e; wok := wok e; trace := trace e |}.
  Definition set_run (e : E) (r : option nat) (nx : nat) : E :=
    {| started := started e; paused := paused e; holding := holding e; stopping := stopping e; sys := sys e; run_id := r;
       next_run := nx; m_err := m_err e; last_err := last_err e; prev := prev e; outs := outs e; hw := hw e;
       ptime := ptime e; rtime := rtime e; btime := btime e; stime := stime e; bpaused := bpaused e; root_on := root_on e; sT := sT e; s_on := s_on e; iticks := iticks e; trk := trk e; creqs := creqs e;
       reg := reg e; uods := uods e; exe := exe e; done := done e; que := que e; restart_pending := restart_pending e;
       now := now e; wok := wok e; trace := trace e |}.
  Definition set_err (e : E) (me le : bool) : E :=
    {| started := started e; paused := paused e; holding := holding e; stopping := stopping e; sys := sys e; run_id := run_id e;
       next_run := next_run e; m_err := me; last_err := le; prev := prev e; outs := outs e; hw := hw e;
       ptime := ptime e; rtime := rtime e; btime := btime e; stime := stime e; bpaused := bpaused e; root_on := root_on e; sT := sT e; s_on := s_on e; iticks := iticks e; trk := trk e; creqs := creqs e;
       reg := reg e; uods := uods e; exe := exe e; done := done e; que := que e; restart_pending := restart_pending e;
       now := now e; wok := wok e; trace := trace e |}.
  Definition set_io (e : E) (pv : option (list (nat * Z))) (o : list Z) (h : list (option Z)) : E :=
    {| started := started e; paused := paused e; holding := holding e; stopping := stopping e; sys := sys e; run_id := run_id e;
       next_run := next_run e; m_err := m_err e; last_err := last_err e; prev := pv; outs := o; hw := h;
       ptime := ptime e; rtime := rtime e; btime := btime e; stime := stime e; bpaused := bpaused e; root_on := root_on e; sT := sT e; s_on := s_on e; iticks := iticks e; trk := trk e; creqs := creqs e;
       reg := reg e; uods := uods e; exe := exe e; done := done e; que := que e; restart_pending := restart_pending e;
       now := now e; wok := wok e; trace := trace e |}.
  Definition set_clk (e : E) (p r b s : Z) (bp ro : bool) : E :=
    {| started := started e; paused := paused e; holding := holding e; stopping := stopping e; sys := sys e; run_id := run_id e;
       next_run := next_run e; m_err := m_err e; last_err := last_err e; prev := prev e; outs := outs e; hw := hw e;
       ptime := p; rtime := r; btime := b; stime := s; bpaused := bp; root_on := ro; sT := sT e; s_on := s_on e; iticks := iticks e; trk := trk e; creqs := creqs e;
       reg := reg e; uods := uods e; exe := exe e; done := done e; que := que e; restart_pending := restart_pending e;
       now := now e; wok := wok e; trace := trace e |}.
  Definition set_scope (e : E) (t : Z) (on : bool) : E :=
    {| started := started e; paused := paused e; holding := holding e; stopping := stopping e; sys := sys e; run_id := run_id e;
       next_run := next_run e; m_err := m_err e; last_err := last_err e; prev := prev e; outs := outs e; hw := hw e;
       ptime := ptime e; rtime := rtime e; btime := btime e; stime := stime e; bpaused := bpaused e; root_on := root_on e;
       sT := t; s_on := on; iticks := iticks e; trk := trk e; creqs := creqs e;
       reg := reg e; uods := uods e; exe := exe e; done := done e; que := que e; restart_pending := restart_pending e;
       now := now e; wok := wok e; trace := trace e |}.
  Definition set_iticks (e : E) (k : nat) : E :=
    {| started := started e; paused := paused e; holding := holding e; stopping := stopping e; sys := sys e; run_id := run_id e;
       next_run := next_run e; m_err := m_err e; last_err := last_err e; prev := prev e; outs := outs e; hw := hw e;
       ptime := ptime e; rtime := rtime e; btime := btime e; stime := stime e; bpaused := bpaused e; root_on := root_on e;
       sT := sT e; s_on := s_on e; iticks := k; trk := trk e; creqs := creqs e;
       reg := reg e; uods := uods e; exe := exe e; done := done e; que := que e; restart_pending := restart_pending e;
       now := now e; wok := wok e; trace := trace e |}.
  Definition set_trk (e : E) (t : bool) : E :=
    {| started := started e; paused := paused e; holding := holding e; stopping := stopping e; sys := sys e; run_id := run_id e;
       next_run := next_run e; m_err := m_err e; last_err := last_err e; prev := prev e; outs := outs e; hw := hw e;
       ptime := ptime e; rtime := rtime e; btime := btime e; stime := stime e; bpaused := bpaused e; root_on := root_on e;
       sT := sT e; s_on := s_on e; iticks := iticks e; trk := t; creqs := creqs e;
       reg := reg e; uods := uods e; exe := exe e; done := done e; que := que e; restart_pending := restart_pending e;
       now := now e; wok := wok e; trace := trace e |}.
  Definition add_creq (e : E) (i : nat) : E :=
    {| started := started e; paused := paused e; holding := holding e; stopping := stopping e; sys := sys e; run_id := run_id e;
       next_run := next_run e; m_err := m_err e; last_err := last_err e; prev := prev e; outs := outs e; hw := hw e;
       ptime := ptime e; rtime := rtime e; btime := btime e; stime := stime e; bpaused := bpaused e; root_on := root_on e;
       sT := sT e; s_on := s_on e; iticks := iticks e; trk := trk e; creqs := i :: creqs e;
       reg := reg e; uods := uods e; exe := exe e; done := done e; que := que e; restart_pending := restart_pending e;
       now := now e; wok := wok e; trace := trace e |}.
  Definition set_cmds (e : E) (rg : list icmd) (us : list ucmd) : E :=
    {| started := started e; paused := paused e; holding := holding e; stopping := stopping e; sys := sys e; run_id := run_id e;
       next_run := next_run e; m_err := m_err e; last_err := last_err e; prev := prev e; outs := outs e; hw := hw e;
       ptime := ptime e; rtime := rtime e; btime := btime e; stime := stime e; bpaused := bpaused e; root_on := root_on e; sT := sT e; s_on := s_on e; iticks := iticks e; trk := trk e; creqs := creqs e;
       reg := rg; uods := us; exe := exe e; done := done e; que := que e; restart_pending := restart_pending e;
       now := now e; wok := wok e; trace := trace e |}.
  Definition set_mgr (e : E) (x : list request) (d : list nat) (q : list request) (rp : option request) : E :=
    {| started := started e; paused := paused e; holding := holding e; stopping := stopping e; sys := sys e; run_id := run_id e;
       next_run := next_run e; m_err := m_err e; last_err := last_err e; prev := prev e; outs := outs e; hw := hw e;
       ptime := ptime e; rtime := rtime e; btime := btime e; stime := stime e; bpaused := bpaused e; root_on := root_on e; sT := sT e; s_on := s_on e; iticks := iticks e; trk := trk e; creqs := creqs e;
       reg := reg e; uods := uods e; exe := x; done := d; que := q; restart_pending := rp;
       now := now e; wok := wok e; trace := trace e |}.
  Definition set_now (e : E) (t : Z) (w : bool) : E :=
    {| started := started e; paused := paused e; holding := holding e; stopping := stopping e; sys := sys e; run_id := run_id e;
       next_run := next_run e; m_err := m_err e; last_err := last_err e; prev := prev e; outs := outs e; hw := hw e;
       ptime := ptime e; rtime := rtime e; btime := btime e; stime := stime e; bpaused := bpaused e; root_on := root_on e; sT := sT e; s_on := s_on e; iticks := iticks e; trk := trk e; creqs := creqs e;
       reg := reg e; uods := uods e; exe := exe e; done := done e; que := que e; restart_pending := restart_pending e;
       now := t; wok := w; trace := trace e |}.
  Definition emit (e : E) (x : ev) : E :=
    {| started := started e; paused := paused e; holding := holding e; stopping := stopping e; sys := sys e; run_id := run_id e;
       next_run := next_run e; m_err := m_err e; last_err := last_err e; prev := prev e; outs := outs e; hw := hw e;
       ptime := ptime e; rtime := rtime e; btime := btime e; stime := stime e; bpaused := bpaused e; root_on := root_on e; sT := sT e; s_on := s_on e; iticks := iticks e; trk := trk e; creqs := creqs e;
       reg := reg e; uods := uods e; exe := exe e; done := done e; que := que e; restart_pending := restart_pending e;
       now := now e; wok := wok e; trace := trace e ++ [x] |}.

  (* ---------- outputs ---------- *)
  Fixpoint upd_nth {A} (l : list A) (i : nat) (x : A) : list A :=
    match l, i with
    | [], _ => []
    | _ :: l', O => x :: l'
    | y :: l', S i' => y :: upd_nth l' i' x
    end.

  (* _apply_safe_state: for every writable register with a safe value, in register order: remember the tag's current
     value and set the tag to the safe value; returns the remembered values *)
  Fixpoint safe_from (i : nat) (sf : list (option Z)) (o : list Z) : list (nat * Z) * list Z :=
    match sf, o with
    | s :: sf', v :: o' =>
        let '(cap, o'') := safe_from (S i) sf' o' in
        match s with
        | Some sv => ((i, v) :: cap, sv :: o'')
        | None => (cap, v :: o'')
        end
    | _, _ => ([], o)
    end.
  Definition apply_safe (e : E) : E * list (nat * Z) :=
    let '(cap, o) := safe_from 0 safe (outs e) in (set_io e (prev e) o (hw e), cap).
  (* _apply_state: every tag named in the captured collection gets its captured value *)
  Definition apply_state (o : list Z) (cap : list (nat * Z)) : list Z :=
    fold_left (fun o p => upd_nth o (fst p) (snd p)) cap o.

  Definition set_error_state (e : E) : E :=
    emit (set_sys (upd_flags (set_err e true true) (started e) true (holding e) (stopping e)) Paused) EError.

  (* write_process_image: nothing unless a run is started; otherwise every output register gets its tag value;
     a HardwareLayerException puts the engine in the error state (once) *)
  Definition write_image (e : E) : E :=
    if negb (started e) then e
    else if wok e then emit (set_io e (prev e) (outs e) (map Some (outs e))) (EHwWrite (outs e))
    else if last_err e then e else set_error_state e.

  (* ---------- the command managers ---------- *)
  (* The execute loop of a manager that has been replaced (Stop / Restart call _stop_interpreter from inside
     the loop) goes on with its private lists: own = Some (executing, done). own = None: the engine's manager. *)
  Definition mgr := option (list request * list nat).
  Definition m_exe (e : E) (m : mgr) : list request := match m with Some (x, _) => x | None => exe e end.
  Definition m_done (e : E) (m : mgr) : list nat := match m with Some (_, d) => d | None => done e end.
  Definition memn (i : nat) (l : list nat) : bool := existsb (Nat.eqb i) l.
  Definition mark_done (e : E) (m : mgr) (r : request) : E * mgr :=
    if existsb (fun x => Nat.eqb (r_id x) (r_id r)) (m_exe e m) then
      match m with
      | Some (x, d) => (e, Some (x, if memn (r_id r) d then d else r_id r :: d))
      | None => (set_mgr e (exe e) (if memn (r_id r) (done e) then done e else r_id r :: done e) (que e) (restart_pending e), None)
      end
    else (e, m).
  Definition current (e : E) (m : mgr) : list request :=
    filter (fun r => negb (memn (r_id r) (m_done e m))) (m_exe e m).

  Definition find_i (e : E) (n : iname) : option icmd := find (fun c => iname_eqb (i_name c) n) (reg e).
  Definition drop_i (e : E) (n : iname) : E :=
    set_cmds e (filter (fun c => negb (iname_eqb (i_name c) n)) (reg e)) (uods e).
  Definition put_i (e : E) (c : icmd) : E :=
    set_cmds e (map (fun x => if iname_eqb (i_name x) (i_name c) then c else x) (reg e)) (uods e).
  Definition find_u (e : E) (n : nat) : option ucmd := find (fun c => Nat.eqb (c_name c) n) (uods e).
  Definition drop_u (e : E) (n : nat) : E :=
    set_cmds e (reg e) (filter (fun c => negb (Nat.eqb (c_name c) n)) (uods e)).
  Definition put_u (e : E) (c : ucmd) : E :=
    set_cmds e (reg e) (map (fun x => if Nat.eqb (c_name x) (c_name c) then c else x) (uods e)).

  (* bodies shared by Unpause._run / Unhold._run and by the timed Pause / Hold and their cancel() *)
  Definition unpause_body (e0 : E) : E :=
    let e := emit e0 (EUnpause (prev e0)) in
    let e1 := upd_flags e (started e) false (holding e) (stopping e) in
    let e2 := set_sys e1 (if holding e then Holding else Running) in
    let e3 := match prev e2 with
              | Some cap => set_io e2 None (apply_state (outs e2) cap) (hw e2)
              | None => e2
              end in
    set_clk e3 (ptime e3) (rtime e3) (btime e3) (stime e3) false (root_on e3).
  Definition unhold_body (e : E) : E :=
    let e1 := upd_flags e (started e) (paused e) false (stopping e) in
    if paused e then e1 else set_sys e1 Running.

  (* cmd.finalize() for an internal command: dispose from the registry *)
  Definition fin_i (e : E) (n : iname) : E := drop_i e n.
  (* cmd.finalize() for a UOD command: finalize_fn, dispose *)
  Definition fin_u (e : E) (c : ucmd) : E := drop_u (emit e (EUFinal (c_name c) (c_id c))) (c_name c).

  (* tracking.mark_cancelled(req) raises when the request's node refuses cancel(); Start/Stop/Restart and everything
     while tracking is disabled are skipped silently *)
  Definition mark_cancelled_raises (e : E) (r : request) : bool :=
    match r_name r with
    | CI Start | CI Stop | CI Restart => false
    | _ => trk e && (negb (r_cancellable r) || negb (r_tracked r) || existsb (Nat.eqb (r_id r)) (creqs e))
    end.
  (* any other tracking.mark_* raises "No record found" for an instance id tracking does not know *)
  Definition untracked (e : E) (r : request) : bool :=
    match r_name r with
    | CI Start | CI Stop | CI Restart => false
    | _ => trk e && negb (r_tracked r)
    end.
  (* a successful mark_cancelled cancels the node *)
  Definition note_cancel (e : E) (r : request) : E :=
    match r_name r with
    | CI Start | CI Stop | CI Restart => e
    | _ => if trk e then add_creq e (r_id r) else e
    end.

  (* A manager that has been replaced keeps the Tracking object of the interpreter it was created with, and that one was
     disabled just before the replacement (Stop / Restart): every tracking.mark_* is silently skipped from then on. *)
  Definition tk (e : E) (m : mgr) : E := match m with Some _ => set_trk e false | None => e end.
  Definition note_cancel_m (e : E) (m : mgr) (r : request) : E := match m with Some _ => e | None => note_cancel e r end.

  (* cancelling a UOD request that has not started an instance: the request is done (it will never start one);
     mark_cancelled afterwards may raise, which is logged and swallowed *)
  Definition cancel_unstarted (e : E) (m : mgr) (r : request) : E * mgr :=
    let '(e1, m1) := mark_done e m r in
    if mark_cancelled_raises (tk e1 m1) r then (e1, m1) else (note_cancel_m e1 m1 r, m1).

  (* _cancel_command(req, finalize=True); exceptions inside are logged and swallowed: when mark_cancelled raises the
     command has been cancel()led but is neither finalized nor is the request marked as done *)
  Definition cancel_request (e : E) (m : mgr) (r : request) : E * mgr :=
    match r_name r with
    | CI n =>
        match find_i e n with
        | None => (e, m)                                   (* "no command instance was found" *)
        | Some c =>
            if i_complete c then mark_done (fin_i e n) m r
            else
              let e1 := match n with
                        | Pause => unpause_body e          (* PauseEngineCommand.cancel: Unpause._run(), set_complete() *)
                        | Hold => unhold_body e
                        | _ => e
                        end in
              let c' := {| i_name := i_name c; i_id := i_id c; i_pc := i_pc c; i_end := i_end c; i_durarg := i_durarg c;
                           i_complete := match n with Pause | Hold => true | _ => i_complete c end;
                           i_failed := i_failed c; i_cancelled := true |} in
              if mark_cancelled_raises (tk e1 m) r then (put_i e1 c', m)
              else mark_done (fin_i (note_cancel_m e1 m r) n) m r
        end
    | CU n =>
        match (match find_u e n with
               | Some c => if Nat.eqb (c_id c) (r_id r) then Some c else None     (* an instance of another request is not ours *)
               | None => None end) with
        | None => cancel_unstarted e m r
        | Some c =>
            if c_complete c then mark_done (fin_u e c) m r
            else
              let c' := {| c_name := c_name c; c_id := c_id c; c_init := c_init c; c_started := c_started c; c_iter := c_iter c;
                           c_complete := c_complete c; c_cancelled := true |} in
              if mark_cancelled_raises (tk e m) r then (put_u e c', m)
              else mark_done (fin_u (note_cancel_m e m r) c) m r
        end
    end.

  (* CommandManager.cancel_commands(source, finalize=True) on the engine's CURRENT manager *)
  Definition cancel_all (e : E) (m : mgr) (source : iname) : E * mgr :=
    let '(e', _) := fold_left (fun em r => if cname_eqb (r_name r) (CI source) then em
                                           else cancel_request (fst em) (snd em) r) (exe e) (e, None) in
    (e', m).

  (* _stop_interpreter: a new interpreter and a new CommandManager; only a pending Restart request is carried over.
     A loop running on the old manager keeps its lists. *)
  Definition reset_manager (e : E) (m : mgr) : E * mgr :=
    let m' := match m with Some _ => m | None => Some (exe e, done e) end in
    (set_iticks (set_mgr e (match restart_pending e with Some r => [r] | None => [] end) [] [] None) 0, m').

  Definition new_run (e : E) : E := emit (set_run e (Some (next_run e)) (S (next_run e))) (EStarted (next_run e)).

  Definition start_body (e : E) : E :=
    let e1 := upd_flags e true false false (stopping e) in
    let e2 := new_run e1 in
    let e3 := set_err (set_sys e2 Running) false (last_err e2) in
    (* Run Time, Process Time := 0; tracking.enable(); on_start: Block Time / Scope Time reset, the block stack is cleared *)
    let e4 := set_io e3 None (outs e3) (hw e3) in      (* captured pre-pause values of an earlier run are dropped *)
    set_trk (set_clk e4 0 0 0 0 false false) true.

  (* Stop, second tick *)
  Definition stop_pre (e : E) : E :=
    let '(e1, _) := apply_safe e in
    let e2 := upd_flags e1 (started e1) false false false in
    let e3 := set_io (set_err e2 false (last_err e2)) None (outs e2) (hw e2) in
    emit (set_run (set_sys (set_trk e3 false) Stopped) None (next_run e3)) EStoppedRun.
  Definition stop_flags (e5 : E) : E := upd_flags e5 false (paused e5) (holding e5) (stopping e5).
  Definition stop_post (e5 : E) (m : mgr) : E * mgr := reset_manager (stop_flags e5) m.
  Definition stop_core (e : E) : E := stop_flags (write_image (stop_pre e)).
  Definition stop_finish (e : E) (m : mgr) : E * mgr := reset_manager (stop_core e) m.
  (* Restart, second and third tick *)
  Definition restart_stop (e : E) : E :=
    let e1 := set_io (upd_flags e false false false false) None (outs e) (hw e) in
    emit (set_run (set_sys (set_trk e1 false) Stopped) None (next_run e1)) EStoppedRun.
  Definition restart_mid (e : E) (m : mgr) : E * mgr := reset_manager (restart_stop e) m.
  Definition restart_finish (e : E) : E :=
    let e1 := set_io (upd_flags e true false false (stopping e)) None (outs e) (hw e) in
    let e2 := new_run e1 in
    let e3 := set_clk e2 0 0 0 0 false false in      (* Run Time, Process Time := 0; on_start of the clock tags *)
    set_sys (set_trk e3 true) Running.

  (* Pause / Hold / Stop / Restart, first step *)
  Definition pause_begin (e : E) : E :=
    let e1 := set_sys (upd_flags e (started e) true (holding e) (stopping e)) Paused in
    let '(e2, cap) := apply_safe e1 in
    (* the values captured by the Pause that began this pause are kept: a second Pause would capture safe values *)
    let stored := match prev e2 with None => cap | Some p => p end in
    let e3 := emit (set_io e2 (Some stored) (outs e2) (hw e2)) (EPause (paused e) stored) in
    set_clk e3 (ptime e3) (rtime e3) (btime e3) (stime e3) true (root_on e3).
  Definition hold_begin (e : E) : E :=
    let e1 := upd_flags e (started e) (paused e) true (stopping e) in
    if paused e then e1 else set_sys e1 Holding.
  Definition stop_begin (e : E) : E := upd_flags e (started e) (paused e) (holding e) true.
  Definition restart_begin (e : E) : E := upd_flags (set_sys e Restarting) (started e) (paused e) (holding e) true.

  Inductive outcome := Yielded | Finished (failed : bool).

  (* one InternalEngineCommand.tick() for an instance that is not complete: runs the generator to its next yield.
     The instance is given; the result says whether it yielded (with the updated instance) or ended. *)
  Definition run_icmd (e : E) (m : mgr) (c : icmd) : E * mgr * icmd * outcome :=
    match i_name c, i_pc c with
    | Start, _ =>
        if started e then (e, m, c, Finished true) else (start_body e, m, c, Finished false)
    | Unpause, _ => (unpause_body e, m, c, Finished false)
    | Unhold, _ => (unhold_body e, m, c, Finished false)
    | Info, _ => (e, m, c, Finished false)
    | Pause, O =>
        let endt := match i_durarg c with Some d => Some (now e + d) | None => None end in
        let e4 := pause_begin e in
        match endt with
        | Some t => if now e4 <? t
                    then (e4, m, {| i_name := Pause; i_id := i_id c; i_pc := 1; i_end := Some t; i_durarg := i_durarg c;
                                    i_complete := false; i_failed := false; i_cancelled := false |}, Yielded)
                    else (unpause_body e4, m, c, Finished false)
        | None => (e4, m, c, Finished false)
        end
    | Pause, _ =>
        match i_end c with
        | Some t => if now e <? t then (e, m, c, Yielded) else (unpause_body e, m, c, Finished false)
        | None => (e, m, c, Finished false)
        end
    | Hold, O =>
        let endt := match i_durarg c with Some d => Some (now e + d) | None => None end in
        let e2 := hold_begin e in
        match endt with
        | Some t => if now e2 <? t
                    then (e2, m, {| i_name := Hold; i_id := i_id c; i_pc := 1; i_end := Some t; i_durarg := i_durarg c;
                                    i_complete := false; i_failed := false; i_cancelled := false |}, Yielded)
                    else (unhold_body e2, m, c, Finished false)
        | None => (e2, m, c, Finished false)
        end
    | Hold, _ =>
        match i_end c with
        | Some t => if now e <? t then (e, m, c, Yielded) else (unhold_body e, m, c, Finished false)
        | None => (e, m, c, Finished false)
        end
    | Stop, O =>
        if sys_eqb (sys e) Stopped || sys_eqb (sys e) Restarting then (e, m, c, Finished true)
        else
          let e1 := stop_begin e in
          let '(e2, m2) := cancel_all e1 m Stop in
          (e2, m2, {| i_name := Stop; i_id := i_id c; i_pc := 1; i_end := None; i_durarg := None; i_complete := false;
                      i_failed := false; i_cancelled := false |}, Yielded)
    | Stop, _ => let '(e7, m7) := stop_finish e m in (e7, m7, c, Finished false)
    | Restart, O =>
        if sys_eqb (sys e) Stopped || sys_eqb (sys e) Restarting then (e, m, c, Finished true)
        else
          let e1 := restart_begin e in
          let '(e2, m2) := cancel_all e1 m Restart in
          (e2, m2, {| i_name := Restart; i_id := i_id c; i_pc := 1; i_end := None; i_durarg := None; i_complete := false;
                      i_failed := false; i_cancelled := false |}, Yielded)
    | Restart, S O =>
        let '(e3, m3) := restart_mid e m in
        (e3, m3, {| i_name := Restart; i_id := i_id c; i_pc := 2; i_end := None; i_durarg := None; i_complete := false;
                    i_failed := false; i_cancelled := false |}, Yielded)
    | Restart, _ => (restart_finish e, m, c, Finished false)
    end.

  (* InternalEngineCommand.tick(): the instance is registered and neither finalized nor cancelled *)
  Definition tick_icmd (e : E) (m : mgr) (c : icmd) : E * mgr * bool (* failed *) * bool (* finalized *) :=
    if i_complete c then (fin_i e (i_name c), m, i_failed c, true)
    else
      let '(e1, m1, c1, o) := run_icmd e m c in
      match o with
      | Yielded => (put_i e1 c1, m1, false, false)
      | Finished f => (fin_i e1 (i_name c), m1, f, true)
      end.

  Definition mk_icmd (r : request) (n : iname) : icmd :=
    {| i_name := n; i_id := r_id r; i_pc := 0; i_end := None; i_durarg := r_dur r; i_complete := false; i_failed := false; i_cancelled := false |}.

  (* _execute_internal_command; returns whether it raised (a tracking.mark_* call on an unknown instance id) *)
  Definition exec_internal (e : E) (m : mgr) (r : request) (n : iname) : E * mgr * bool :=
    match find_i e n with
    | Some c =>
        if i_cancelled c then
          let '(e1, m1) := mark_done (fin_i e n) m r in (e1, m1, untracked (tk e1 m1) r)   (* finalize it now; mark_completed *)
        else
        let '(e1, m1, failed, fin) := tick_icmd e m c in
        if failed || fin then let '(e2, m2) := mark_done e1 m1 r in (e2, m2, untracked (tk e2 m2) r) else (e1, m1, false)
    | None =>
        (* Pause / Unpause / Hold / Unhold requests are dropped once no run is active (the run they were made in has
           ended earlier in this tick) *)
        if (match n with Pause | Unpause | Hold | Unhold => true | _ => false end) && negb (started e)
        then let '(e1, m1) := mark_done e m r in (e1, m1, false) else
        let c := mk_icmd r n in
        let e0 := set_cmds e (reg e ++ [c]) (uods e) in
        let e1 := match n with
                  | Restart => match m with
                               | None => set_mgr e0 (exe e0) (done e0) (que e0) (Some r)
                               | Some _ => e0            (* the pending request is recorded on a manager that is gone *)
                               end
                  | _ => e0
                  end in
        if untracked (tk e1 m) r then (e1, m, true)               (* mark_internal_command_started raises: created, never ticked *)
        else
        let '(e2, m2, failed, fin) := tick_icmd e1 m c in
        if failed || fin then let '(e3, m3) := mark_done e2 m2 r in (e3, m3, untracked (tk e3 m3) r) else (e2, m2, false)
    end.

  Definition overlapping (a b : nat) : bool :=
    existsb (fun l => memn a l && memn b l) overlaps.

  Definition set_out (e : E) (i : nat) (v : Z) : E := set_io e (prev e) (upd_nth (outs e) i v) (hw e).
  Definition set_out_by (u : bool) (e : E) (i : nat) (v : Z) : E := emit (set_out e i v) (EOut u i v).

  Definition inited (c : ucmd) : ucmd :=
    {| c_name := c_name c; c_id := c_id c; c_init := true; c_started := c_started c; c_iter := c_iter c;
       c_complete := c_complete c; c_cancelled := c_cancelled c |}.
  (* _execute_uod_command; returns whether it raised *)
  Definition exec_uod (e : E) (m : mgr) (r : request) (n : nat) : E * mgr * bool :=
    (* cancel any existing request with the same name, then any overlapping one *)
    let '(e1, m1) :=
      fold_left (fun em c => if cname_eqb (r_name c) (CU n) && negb (Nat.eqb (r_id c) (r_id r))
                             then cancel_request (fst em) (snd em) c else em) (current e m) (e, m) in
    let '(e2, m2) :=
      fold_left (fun em c => match r_name c with
                             | CU k => if negb (Nat.eqb (r_id c) (r_id r)) && overlapping k n
                                       then cancel_request (fst em) (snd em) c else em
                             | _ => em end) (current e1 m1) (e1, m1) in
    let '(e3, c) := match find_u e2 n with
                    | Some c => (e2, c)
                    | None => let c := {| c_name := n; c_id := r_id r; c_init := false; c_started := false; c_iter := -1;
                                          c_complete := false; c_cancelled := false |} in
                              (set_cmds e2 (reg e2) (uods e2 ++ [c]), c)
                    end in
    if c_cancelled c then let '(e5, m5) := mark_done (fin_u e3 c) m2 r in (e5, m5, false) else
    (* init_fn runs once; the instance remembers it *)
    let e4 := if c_init c then e3 else put_u (emit e3 (EUInit n (c_id c))) (inited c) in
    if negb (c_started c) && untracked (tk e4 m2) r then
      (* mark_uod_command_started raises; the local clean-up cancel()s the command, mark_cancelled raises as well (swallowed),
         so it is neither finalized nor is the request done *)
      (put_u e4 {| c_name := n; c_id := c_id c; c_init := true; c_started := false; c_iter := c_iter c; c_complete := false;
                   c_cancelled := true |}, m2, true)
    else
    if c_complete c then
      let '(e5, m5) := mark_done (fin_u e4 c) m2 r in (e5, m5, false)
    else
      let it := c_iter c + 1 in
      let e5 := emit e4 (EUExec n (c_id c) it) in
      let e6 := match u_out (r_scr r) with Some (o, v) => set_out_by (r_user r) e5 o (v + it) | None => e5 end in
      let fails := match u_fail (r_scr r) with Some k => Z.of_nat k <=? it | None => false end in
      if fails then
        (* local clean-up: cancel + finalize, then the exception propagates *)
        let c' := {| c_name := n; c_id := c_id c; c_init := true; c_started := true; c_iter := it; c_complete := false;
                     c_cancelled := true |} in
        let '(e7, m7) := if mark_cancelled_raises (tk e6 m2) r then (put_u e6 c', m2)
                         else mark_done (fin_u (put_u (note_cancel_m e6 m2 r) c') c') m2 r in (e7, m7, true)
      else
        let complete := Z.of_nat (u_dur (r_scr r)) <=? it in
        let c' := {| c_name := n; c_id := c_id c; c_init := true; c_started := true; c_iter := it; c_complete := complete;
                     c_cancelled := false |} in
        let e7 := put_u e6 c' in
        if complete then let '(e8, m8) := mark_done (fin_u e7 c') m2 r in (e8, m8, false)
        else (e7, m2, false).

  (* the loop of execute_commands over the snapshot of requests *)
  Fixpoint exec_loop (e : E) (m : mgr) (todo : list request) : E * mgr * bool :=
    match todo with
    | [] => (e, m, false)
    | r :: todo' =>
        if memn (r_id r) (m_done e m) then exec_loop e m todo'
        else
          match r_name r with
          | CI n => let '(e1, m1, raised) := exec_internal e m r n in
                    if raised then (e1, m1, true) else exec_loop e1 m1 todo'
          | CU n => let '(e1, m1, raised) := exec_uod e m r n in
                    if raised then (e1, m1, true) else exec_loop e1 m1 todo'
          end
    end.

  (* CommandManager.tick -> execute_commands, on the engine's current manager *)
  Definition execute_commands (e : E) : E * bool :=
    let e0 := set_mgr e (rev (que e) ++ exe e) [] [] (restart_pending e) in
    let '(e1, m1, raised) := exec_loop e0 None (exe e0) in
    (* finally: commit on the loop's own manager *)
    let e2 := match m1 with
              | None => set_mgr e1 (filter (fun r => negb (memn (r_id r) (done e1))) (exe e1)) [] (que e1) (restart_pending e1)
              | Some _ => e1
              end in
    (e2, raised).

  (* ---------- user requests ---------- *)
  Definition validate (e : E) (n : iname) : bool :=
    let stopped_or_restarting := sys_eqb (sys e) Stopped || sys_eqb (sys e) Restarting in
    match n with
    | Start => sys_eqb (sys e) Stopped
    | Stop | Restart => negb stopped_or_restarting
    | Pause => negb stopped_or_restarting && negb (paused e)
    | Unpause => negb stopped_or_restarting && paused e
    | Hold => negb stopped_or_restarting && negb (holding e)
    | Unhold => negb stopped_or_restarting && holding e
    | Info => true
    end.

  (* the instance id is created when the request is made: tracking knows it iff tracking is enabled at that moment *)
  Definition stamp (e : E) (r : request) : request :=
    {| r_id := r_id r; r_name := r_name r; r_dur := r_dur r; r_scr := r_scr r; r_user := r_user r;
       r_cancellable := r_cancellable r; r_tracked := trk e |}.
  Definition schedule (e : E) (r : request) : E := set_mgr e (exe e) (done e) (que e ++ [stamp e r]) (restart_pending e).

  (* ---------- one engine tick ---------- *)
  Record tick_in := { t_time : Z; t_dt : Z; t_read_ok : bool; t_write_ok : bool;
                      t_interp : list request; t_interp_raises : bool }.

  Definition interp_runs (e : E) : bool := started e && negb (paused e) && negb (holding e) && negb (stopping e).

  Definition clocks (e : E) : list Z := [ptime e; rtime e; btime e; stime e].
  Definition advance_clocks (e : E) (dt : Z) : E :=
    let p := if sys_eqb (sys e) Running then ptime e + dt else ptime e in
    let r := if sys_eqb (sys e) Stopped || sys_eqb (sys e) Restarting then rtime e else rtime e + dt in
    (* Block Time / Scope Time: on_tick does nothing while the tag is paused or the System State is not Running *)
    if bpaused e || negb (sys_eqb (sys e) Running) then set_clk e p r (btime e) (stime e) (bpaused e) (root_on e)
    else
      (* BlockTimeTag.on_tick: every stack item advances, the value is the top item or 0;
         ScopeTimeTag.on_tick: every timer advances, the value is the timer of the top of the stack or 0 *)
      let b := if root_on e then btime e + dt else 0 in
      let t := if s_on e then sT e + dt else sT e in
      set_scope (set_clk e p r b (if s_on e then t else 0) false (root_on e)) t (s_on e).
  Definition update_clocks (e : E) (dt : Z) : E :=
    let e' := advance_clocks e dt in emit e' (EClock (sys e) dt (clocks e) (clocks e')).

  Definition root_push (e : E) : E := set_scope (set_clk e (ptime e) (rtime e) 0 (stime e) (bpaused e) true) 0 true.

  Definition tick (e : E) (i : tick_in) : E :=
    let e0 := set_now e (t_time i) (t_write_ok i) in
    let e1 := if t_read_ok i then e0 else if last_err e0 then e0 else set_error_state e0 in
    let e2 := if interp_runs e1 then
                let e' := fold_left schedule (t_interp i) e1 in
                (* a new interpreter spends its first tick in visit_Node's EndTick; on its second tick visit_ProgramNode
                   starts the root block (a new BlockTimeTag stack item) and activates the root scope (timer := 0) *)
                let e'' := match iticks e' with
                           | O => set_iticks e' 1
                           | S O => set_iticks (root_push e') 2
                           | _ => e'
                           end in
                if t_interp_raises i then set_error_state e'' else e''
              else e1 in
    let e3 := if started e2 then update_clocks e2 (t_dt i) else e2 in
    let '(e4, raised) := execute_commands e3 in
    let e5 := if raised then set_error_state e4 else e4 in
    write_image e5.

  (* ---------- operations ---------- *)
  Inductive op :=
  | OTick (i : tick_in)
  | OUser (r : request) (n : iname)            (* execute_control_command_from_user: validated, then scheduled *)
  | OUserUod (r : request)                     (* a UOD command from the user: scheduled without validation *)
  | OSetOut (o : nat) (v : Z)                  (* something assigns an output tag between ticks (user command effect) *)
  | ONop.

  Definition step (e : E) (o : op) : E * bool (* accepted *) :=
    match o with
    | OTick i => (tick e i, true)
    | OUser r n => if validate e n then (schedule e r, true) else (e, false)
    | OUserUod r => (schedule e r, true)
    | OSetOut o v => (set_out_by true e o v, true)
    | ONop => (e, false)
    end.
End Cfg.

Definition init (n_out : nat) (outs0 : list Z) : E :=
  {| started := false; paused := false; holding := false; stopping := false; sys := Stopped; run_id := None; next_run := 0;
     m_err := false; last_err := false; prev := None; outs := outs0; hw := repeat None n_out;
     ptime := 0; rtime := 0; btime := 0; stime := 0; bpaused := false; root_on := false; sT := 0; s_on := false; iticks := 0%nat; trk := false; creqs := [];
     reg := []; uods := []; exe := []; done := []; que := []; restart_pending := None; now := 0; wok := true; trace := [] |}.

(* Engine._run: apply the safe state to the tags and write the process image (forced: no run is started yet) *)
Definition boot (safe : list (option Z)) (e : E) : E :=
  let e1 := fst (apply_safe safe e) in
  emit (set_io e1 (prev e1) (outs e1) (map Some (outs e1))) (EHwWrite (outs e1)).
