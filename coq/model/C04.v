(* C04: two streams. (1) methods under scripted environments: the monitor is defined in model/C02.v (shared interpreter
   monitors). (2) methods with cancel / force requests against the run log ("neither runs after it was cancelled", "or
   after the user forced it"): model, correspondence and monitor of model/C12.v. *)
From Coq Require Import ZArith List Bool Arith.
From OP Require Import lib.Obs model.Interp model.InterpRun model.C02 model.C12.
Inductive input := IRun (i : InterpRun.input) | IReq (i : C12.input).
Inductive output := ORun (o : InterpRun.output) | OReq (o : C12.output).
Definition run (i : input) : output :=
  match i with IRun x => ORun (InterpRun.run x) | IReq x => OReq (C12.run x) end.
Definition out_eqb (a b : output) : bool :=
  match a, b with
  | ORun x, ORun y => InterpRun.out_eqb x y
  | OReq x, OReq y => C12.out_eqb x y
  | _, _ => false
  end.
Definition holds_b (i : input) (o : output) : bool :=
  match i, o with
  | IRun x, ORun y => C02.holds_c04 x y
  | IReq x, OReq y => C12.holds_b x y
  | _, _ => false
  end.
