#!/bin/sh
# Build the whole Coq development from files on disk (offline). Full .vo build.
set -e
cd "$(dirname "$0")"
export PYTHONHASHSEED=0 OPEN_PECTUS_VERIF=1
/venv/bin/python -m harness.translate_all || echo "translate_all reported problems (checks will report them)"
cd coq
coq_makefile -f _CoqProject -o Makefile
timeout 3000 make -j16
