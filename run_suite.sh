#!/bin/sh
# Run the repository's baseline test suite with the verification guard OFF and print the summary.
cd /repo && env -u OPEN_PECTUS_VERIF /venv/bin/python -m pytest -ra -q -p no:cacheprovider --timeout=900 \
  --continue-on-collection-errors --junitxml=/verif/_build/suite.junit.xml > /verif/_build/suite.log 2>&1
/venv/bin/python - <<'PY'
import xml.etree.ElementTree as ET
r = ET.parse('/verif/_build/suite.junit.xml').getroot()
ts = r if r.tag == 'testsuite' else r[0]
print({k: ts.attrib.get(k) for k in ('tests', 'failures', 'errors', 'skipped')})
bad = [(c.attrib.get('classname'), c.attrib.get('name')) for c in ts.iter('testcase') if c.find('failure') is not None or c.find('error') is not None]
print('failed/errored:', bad)
import json
sp = set(json.load(open('/root/.vp/BASELINE.json'))['stable_pass'])
passed = {c.attrib['classname'] + '::' + c.attrib['name'] for c in ts.iter('testcase')
          if c.find('failure') is None and c.find('error') is None and c.find('skipped') is None}
print('baseline stable_pass:', len(sp), 'of which not passing now:', sorted(sp - passed))
PY
